#!/usr/bin/env python3
"""(Re)generate MANIFEST.json from the metadata of the check modules present in checks/."""
import os
import sys
import json
import importlib

ROOT = os.path.dirname(os.path.dirname(os.path.abspath(__file__)))
sys.path.insert(0, ROOT)

NOT_YET = 'no check registered (yet) in this revision of the framework; nothing is claimed for it'


def main():
    props = [json.loads(l) for l in open(os.path.join(ROOT, 'properties.jsonl'))]
    na_path = os.path.join(ROOT, 'not_applicable.json')
    na_reasons = json.load(open(na_path)) if os.path.exists(na_path) else {}
    checks, na = [], []
    for p in props:
        pid = p['id']
        path = os.path.join(ROOT, 'checks', pid.lower() + '.py')
        if not os.path.exists(path) or pid in na_reasons:
            na.append({'property_id': pid, 'reason': na_reasons.get(pid, NOT_YET)})
            continue
        mod = importlib.import_module('checks.' + pid.lower())
        entry = {
            'property_id': pid,
            'quick_cmd': f'bin/check {pid} --tier quick',
            'thorough_cmd': f'bin/check {pid} --tier thorough',
            'evidence_file': f'evidence/{pid}.json',
            'replay_cmd_template': f'bin/check {pid} --replay {{path}}',
            'engine': getattr(mod, 'ENGINE', 'UNIT'),
            'level_claimed': {'category': getattr(mod, 'LEVEL', 'exploration'),
                              'text': getattr(mod, 'LEVEL_TEXT', ''),
                              'design_ref': 'DESIGN.md section ' + getattr(mod, 'DESIGN_REF', '3/' + pid)},
            'level_note': getattr(mod, 'LEVEL_NOTE', ''),
            'technique': getattr(mod, 'TECHNIQUE', 'runtime monitoring'),
        }
        checks.append(entry)
    hooks_path = os.path.join(ROOT, 'hooks.json')
    hooks = json.load(open(hooks_path)) if os.path.exists(hooks_path) else {}
    man = {
        'version': 1,
        'setup_cmd': 'bin/setup',
        'hooks': {
            'guard': 'MPYC_VERIF',
            'enable': ('no source hooks: all monitors attach from the harness by rebinding names that mpyc resolves at call time '
                       '(vlib/sim.py install()); checks import /repo working tree directly (editable), nothing to build'),
            'baseline_off_cmd': 'cd /repo && /venv/bin/python -m pytest -ra -q -p no:cacheprovider --timeout=900 --continue-on-collection-errors',
            'source_commits': hooks.get('source_commits', []),
            'add_only': True,
        },
        'engines': [
            {'name': 'SIM', 'path': 'vlib/sim.py', 'serves_properties': sorted(c['property_id'] for c in checks if c['engine'] == 'SIM'),
             'kind_free_text': 'm real mpyc Runtimes in one process on a deterministic scheduler with a virtual byte-stream network, seeded randomness, fault injection; monitors on wire, tasks, shares, openings'},
            {'name': 'UNIT', 'path': 'checks/', 'serves_properties': sorted(c['property_id'] for c in checks if c['engine'] == 'UNIT'),
             'kind_free_text': 'direct drivers of the real library functions with independent reference oracles (enumerated small spaces, sampled large ones)'},
        ],
        'checks': checks,
        'notes': 'Technique family: runtime monitoring. See DESIGN.md. Exit codes: 0 held, 1 violation (VIOLATION line), 3 inconclusive.',
        'not_applicable': na,
    }
    with open(os.path.join(ROOT, 'MANIFEST.json'), 'w') as f:
        json.dump(man, f, indent=1)
    print(f'MANIFEST.json: {len(checks)} checks, {len(na)} not_applicable')


if __name__ == '__main__':
    main()
