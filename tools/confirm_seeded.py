#!/usr/bin/env python3
"""Confirm a seeded change delivered by a sub-agent and file it under /verif/seeded/<name>/.

usage: tools/confirm_seeded.py <srcdir with patch.diff, demo.py|demo.sh, notes.md> <name> <property>
Steps (all in a scratch copy of /repo outside /repo and /verif, removed afterwards):
  repo test-suite passes with the change; demo fails with the change; demo passes on the pristine tree.
"""
import os
import sys
import json
import shutil
import subprocess
import tempfile
import time

ROOT = os.path.dirname(os.path.dirname(os.path.abspath(__file__)))


def run(cmd, cwd, env=None, timeout=600):
    t0 = time.time()
    try:
        p = subprocess.run(cmd, cwd=cwd, env=env, stdout=subprocess.PIPE, stderr=subprocess.STDOUT, text=True, timeout=timeout, errors='replace')
        return p.returncode, p.stdout, round(time.time() - t0, 1)
    except subprocess.TimeoutExpired as e:
        return 'timeout', (e.stdout or b'').decode(errors='replace') if isinstance(e.stdout, bytes) else str(e.stdout), round(time.time() - t0, 1)


def main():
    src, name, prop = sys.argv[1:4]
    patch = os.path.join(src, 'patch.diff')
    demo = next((os.path.join(src, d) for d in ('demo.py', 'demo.sh') if os.path.exists(os.path.join(src, d))), None)
    assert os.path.exists(patch) and demo, 'patch.diff and demo required'
    scratch = tempfile.mkdtemp(prefix='mpyc-seed-', dir='/var/tmp')
    pristine = tempfile.mkdtemp(prefix='mpyc-prist-', dir='/var/tmp')
    out = {'property': prop, 'name': name}
    try:
        for d in (scratch, pristine):
            subprocess.run(['rsync', '-a', '--exclude', '.git', '--exclude', '__pycache__', '/repo/', d + '/'], check=True)
        r = subprocess.run(['patch', '-p1', '-s', '-d', scratch, '-i', os.path.abspath(patch)], stdout=subprocess.PIPE, stderr=subprocess.STDOUT, text=True)
        if r.returncode != 0:
            print('PATCH DOES NOT APPLY:', r.stdout[-500:])
            return 2
        env = dict(os.environ, PYTHONPATH=scratch, PYTHONDONTWRITEBYTECODE='1')
        rc, o, dt = run(['/venv/bin/python', '-m', 'pytest', '-q', '-p', 'no:cacheprovider', '--timeout=900', '-n', '8'], scratch, env)
        tail = o.strip().splitlines()[-1] if o.strip() else ''
        out['tests_with_change'] = {'rc': rc, 'tail': tail}
        print(f'tests with change: rc={rc} {tail}')
        democmd = ['/venv/bin/python', demo] if demo.endswith('.py') else ['bash', demo]
        rc1, o1, dt1 = run(democmd, scratch, env, timeout=900)
        out['demo_with_change'] = {'rc': rc1, 'seconds': dt1, 'tail': o1.strip()[-400:]}
        print(f'demo with change: rc={rc1} ({dt1}s) {o1.strip()[-200:]!r}')
        envp = dict(os.environ, PYTHONPATH=pristine, PYTHONDONTWRITEBYTECODE='1')
        rc2, o2, dt2 = run(democmd, pristine, envp, timeout=900)
        out['demo_pristine'] = {'rc': rc2, 'seconds': dt2, 'tail': o2.strip()[-300:]}
        print(f'demo pristine: rc={rc2} ({dt2}s) {o2.strip()[-200:]!r}')
        ok = rc == 0 and rc1 not in (0,) and rc2 == 0
        out['confirmed'] = ok
        if ok:
            dst = os.path.join(ROOT, 'seeded', name)
            os.makedirs(dst, exist_ok=True)
            shutil.copy(patch, os.path.join(dst, 'patch.diff'))
            shutil.copy(demo, os.path.join(dst, os.path.basename(demo)))
            notes = os.path.join(src, 'notes.md')
            needs = ''
            if os.path.exists(notes):
                shutil.copy(notes, os.path.join(dst, 'notes.md'))
                needs = open(notes).read()[:1500]
            meta = {'property': prop, 'breaks': prop, 'origin': 'independent sub-agent given only the property text and a scratch worktree',
                    'needs_to_manifest': 'see notes.md', 'what_was_run': out}
            with open(os.path.join(dst, 'meta.json'), 'w') as f:
                json.dump(meta, f, indent=1)
            print('CONFIRMED ->', dst)
        else:
            print('NOT CONFIRMED')
        return 0 if ok else 1
    finally:
        shutil.rmtree(scratch, ignore_errors=True)
        shutil.rmtree(pristine, ignore_errors=True)


if __name__ == '__main__':
    sys.exit(main())
