#!/usr/bin/env python3
"""Run checks against the confirmed seeded changes (scratch copy of /repo + patch, VERIF_REPO) and record who catches what.

usage: tools/eval_seeded.py [--only NAME[,NAME]] [--checks C08,C09] [--tier quick]
Default checks for a change = its own property's check plus those listed in seeded/<name>/meta.json["also_run"].
Results are merged into seeded/RESULTS.json.
"""
import os
import sys
import json
import shutil
import argparse
import subprocess
import tempfile

ROOT = os.path.dirname(os.path.dirname(os.path.abspath(__file__)))


def main():
    ap = argparse.ArgumentParser()
    ap.add_argument('--only')
    ap.add_argument('--checks')
    ap.add_argument('--tier', default='quick')
    a = ap.parse_args()
    sd = os.path.join(ROOT, 'seeded')
    names = sorted(n for n in os.listdir(sd) if os.path.isdir(os.path.join(sd, n)))
    if a.only:
        names = [n for n in names if n in a.only.split(',')]
    respath = os.path.join(sd, 'RESULTS.json')
    results = json.load(open(respath)) if os.path.exists(respath) else {}
    for name in names:
        meta = json.load(open(os.path.join(sd, name, 'meta.json')))
        checks = a.checks.split(',') if a.checks else [meta['property']] + meta.get('also_run', [])
        checks = [c for c in checks if os.path.exists(os.path.join(ROOT, 'checks', c.lower() + '.py'))]
        if not checks:
            print(f'{name}: no check present for {meta["property"]}')
            continue
        scratch = tempfile.mkdtemp(prefix='mpyc-eval-', dir='/var/tmp')
        try:
            subprocess.run(['rsync', '-a', '--exclude', '.git', '--exclude', '__pycache__', '/repo/', scratch + '/'], check=True)
            r = subprocess.run(['patch', '-p1', '-s', '-d', scratch, '-i', os.path.join(sd, name, 'patch.diff')], stdout=subprocess.PIPE, stderr=subprocess.STDOUT, text=True)
            if r.returncode != 0:
                print(f'{name}: patch does not apply: {r.stdout[-200:]}')
                continue
            for chk in checks:
                r = subprocess.run([os.path.join(ROOT, 'bin', 'check'), chk, '--tier', a.tier],
                                   env=dict(os.environ, VERIF_REPO=scratch, VERIF_NO_EVIDENCE='1'), stdout=subprocess.PIPE, stderr=subprocess.STDOUT, text=True)
                lines = r.stdout.strip().splitlines()
                viol = [l for l in lines if l.startswith('VIOLATION')]
                first = viol[0].split('#', 1)[-1].strip()[:220] if viol else ''
                verdict = {1: 'caught', 0: 'missed', 3: 'inconclusive'}.get(r.returncode, f'rc={r.returncode}')
                results.setdefault(name, {})[f'{chk}/{a.tier}'] = {'verdict': verdict, 'violations': len(viol), 'first': first}
                print(f'{name:10s} {chk} [{a.tier}]: {verdict:12s} {first[:150]}')
        finally:
            shutil.rmtree(scratch, ignore_errors=True)
        # merge under a lock: several evaluations may run at the same time
        import fcntl
        with open(respath + '.lock', 'w') as lk:
            fcntl.flock(lk, fcntl.LOCK_EX)
            cur = json.load(open(respath)) if os.path.exists(respath) else {}
            if name in results:
                cur.setdefault(name, {}).update(results[name])
            with open(respath, 'w') as f:
                json.dump(cur, f, indent=1, sort_keys=True)


if __name__ == '__main__':
    sys.exit(main())
