#!/usr/bin/env python3
"""Validate monitors against a mutant of /repo (scratch copy outside /repo and /verif, deleted afterwards).

usage: tools/mutate.py [--patch P | --replace FILE OLD NEW [--nth N]] [--tests [PATTERN]] [--tier quick] CHECK [CHECK...]
Exit status: 0 if every listed check reported a violation (exit 1) on the mutant, 1 otherwise.
"""
import os
import sys
import shutil
import argparse
import subprocess
import tempfile

ROOT = os.path.dirname(os.path.dirname(os.path.abspath(__file__)))


def main():
    ap = argparse.ArgumentParser()
    ap.add_argument('--patch')
    ap.add_argument('--replace', nargs=3, metavar=('FILE', 'OLD', 'NEW'), action='append', default=[])
    ap.add_argument('--nth', type=int, default=0, help='which occurrence to replace (0-based); -1 = all')
    ap.add_argument('--tests', nargs='?', const='', default=None, help='run the repo test-suite (optionally -k PATTERN) on the mutant first')
    ap.add_argument('--tier', default='quick')
    ap.add_argument('--keep', action='store_true')
    ap.add_argument('checks', nargs='*')
    a = ap.parse_args()
    scratch = tempfile.mkdtemp(prefix='mpyc-mut-', dir='/var/tmp')
    try:
        subprocess.run(['rsync', '-a', '--exclude', '.git', '--exclude', '__pycache__', '/repo/', scratch + '/'], check=True)
        if a.patch:
            subprocess.run(['patch', '-p1', '-s', '-d', scratch, '-i', os.path.abspath(a.patch)], check=True)
        for f, old, new in a.replace:
            p = os.path.join(scratch, f)
            s = open(p).read()
            n = s.count(old)
            if n == 0:
                print(f'MUTATE: pattern not found in {f}: {old!r}')
                return 2
            if a.nth == -1:
                s = s.replace(old, new)
            else:
                parts = s.split(old)
                k = a.nth
                s = old.join(parts[:k + 1]) + new + old.join(parts[k + 1:])
            open(p, 'w').write(s)
        ok = True
        if a.tests is not None:
            cmd = ['/venv/bin/python', '-m', 'pytest', '-q', '-x', '-p', 'no:cacheprovider', '--timeout=900', '-n', '8']
            if a.tests:
                cmd += ['-k', a.tests]
            r = subprocess.run(cmd, cwd=scratch, env=dict(os.environ, PYTHONPATH=scratch, PYTHONDONTWRITEBYTECODE='1'),
                               stdout=subprocess.PIPE, stderr=subprocess.STDOUT, text=True)
            tail = r.stdout.strip().splitlines()[-1] if r.stdout.strip() else ''
            print(f'MUTATE: repo tests on mutant: rc={r.returncode} {tail}')
            if r.returncode != 0:
                print(r.stdout[-1500:])
        for chk in a.checks:
            r = subprocess.run([os.path.join(ROOT, 'bin', 'check'), chk, '--tier', a.tier],
                               env=dict(os.environ, VERIF_REPO=scratch, VERIF_NO_EVIDENCE='1'), stdout=subprocess.PIPE, stderr=subprocess.STDOUT, text=True)
            lines = r.stdout.strip().splitlines()
            viol = [l for l in lines if l.startswith('VIOLATION')]
            print(f'MUTATE: {chk} rc={r.returncode} violations={len(viol)}')
            for l in (viol[:3] + [l for l in lines if l.startswith('INCONCLUSIVE')][:2] + lines[-1:]):
                print('    ' + l[:400])
            if r.returncode != 1:
                ok = False
        return 0 if ok else 1
    finally:
        if not a.keep:
            shutil.rmtree(scratch, ignore_errors=True)
        else:
            print('kept', scratch)


if __name__ == '__main__':
    sys.exit(main())
