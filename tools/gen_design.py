#!/usr/bin/env python3
"""Assemble /verif/DESIGN.md from the hand-written parts in design/ and from what the machinery itself records:
check metadata (checks/cNN.py), known_findings.json, seeded/RESULTS.json, design/mutants.json, evidence/*.json."""
import os
import sys
import json
import importlib

ROOT = os.path.dirname(os.path.dirname(os.path.abspath(__file__)))
sys.path.insert(0, ROOT)


def rd(p):
    with open(os.path.join(ROOT, p)) as f:
        return f.read()


def esc(s):
    return str(s).replace('|', '\\|').replace('\n', ' ')


def main():
    props = {}
    for l in open(os.path.join(ROOT, 'properties.jsonl')):
        d = json.loads(l)
        props[d['id']] = d
    notes = json.loads(rd('design/notes.json'))
    kf = json.loads(rd('known_findings.json'))['findings']
    seeded = json.loads(rd('seeded/RESULTS.json')) if os.path.exists(os.path.join(ROOT, 'seeded/RESULTS.json')) else {}
    mutants = json.loads(rd('design/mutants.json')) if os.path.exists(os.path.join(ROOT, 'design/mutants.json')) else {}
    pre = rd('design/preface.md').replace('{N_FIXED}', str(sum(1 for e in kf if e['status'] == 'fixed'))).replace('{N_KNOWN}', str(sum(1 for e in kf if e['status'] == 'known'))).replace('{N_SEEDED}', str(len(seeded)))
    out = [pre, rd('design/head_0_2.md')]

    # ------------------------------------------------------------------ section 3: per property, as built
    out.append('## 3. Per-property decision procedures (as built)\n\n'
               'Generated from the check modules themselves (`checks/cNN.py`: `TECHNIQUE`, `RULE`, `EXHAUSTIVE`, `ASSUMPTIONS`, `REQUIRE`) and from the last quick-tier '
               'evidence file, so this section cannot drift from the code. "Reach required" are the minimum monitor counts below which the driver reports '
               '**inconclusive** instead of held. The design-time reasoning per property (why these observations refute the property, which probes shaped it) is kept in Appendix C.\n')
    for i in range(1, 40):
        pid = f'C{i:02d}'
        m = importlib.import_module(f'checks.c{i:02d}')
        ev = None
        evp = os.path.join(ROOT, 'evidence', f'{pid}.json')
        if os.path.exists(evp):
            ev = json.load(open(evp))
        out.append(f'### {pid} — {props[pid]["title"]}\n')
        out.append(f'* **Engine / level:** {m.ENGINE} · {m.LEVEL} — {getattr(m, "LEVEL_TEXT", "")}')
        out.append(f'* **Deciding method:** {m.TECHNIQUE}')
        out.append(f'* **Case, non-triviality, distinctness:** {m.RULE}')
        if getattr(m, 'EXHAUSTIVE', ''):
            out.append(f'* **Enumerated completely (by running the real code on every element):** {m.EXHAUSTIVE}')
        if getattr(m, 'ASSUMPTIONS', None):
            out.append('* **Assumptions / trusted:** ' + '; '.join(m.ASSUMPTIONS) + (f'; {m.LEVEL_NOTE}' if getattr(m, 'LEVEL_NOTE', '') else ''))
        req = getattr(m, 'REQUIRE', {})
        req = req.get('any', req.get('quick', {}))
        if req:
            out.append('* **Reach required (else inconclusive):** ' + ', '.join(f'{k} ≥ {v}' for k, v in req.items()))
        if ev:
            cov = ev.get('coverage', {})
            mc = cov.get('monitor_counters', {})
            top = ', '.join(f'{k}={v}' for k, v in list(sorted(mc.items(), key=lambda kv: -kv[1] if isinstance(kv[1], (int, float)) else 0))[:6])
            out.append(f'* **Last {ev.get("tier")} run on the unchanged tree (seed {ev.get("seed")}):** {cov.get("evaluations")} cases, {cov.get("distinct_nontrivial")} distinct non-trivial; {top}')
        finds = [e for e in kf if e['property'] == pid]
        if finds:
            out.append('* **Findings:** ' + ', '.join(f'{e["id"]} ({e["status"]}{" " + e.get("commit", "") if e["status"] == "fixed" else ""})' for e in finds) + ' — §5')
        caught = []
        for name, res in sorted(seeded.items()):
            for key, v in res.items():
                if key.startswith(pid + '/'):
                    caught.append(f'{name}: {v["verdict"] if isinstance(v, dict) else v}')
        for name, mres in sorted(mutants.items()):
            if pid in mres.get('checks', {}):
                caught.append(f'mutant {name}: {mres["checks"][pid]}')
        if caught:
            out.append('* **Validation (seeded changes / mutants run against this check):** ' + '; '.join(caught))
        n = notes.get(pid)
        if n:
            out.append(f'* **Notes and limits:** {n}')
        out.append('')

    # ------------------------------------------------------------------ section 4: not applicable
    na = json.loads(rd('not_applicable.json')) if os.path.exists(os.path.join(ROOT, 'not_applicable.json')) else []
    out.append('## 4. Not applicable\n')
    if na:
        for e in na:
            out.append(f'* {e["id"]}: {e["reason"]}')
    else:
        out.append('No property is listed under `not_applicable`: all 39 are decided by runtime monitoring of the real code (C13, C18 and C33 with the '
                   'exact/statistical oracles described above). What the family cannot do for them is stated per property under "Notes and limits" and in §8.\n')
    out.append(rd('design/tools_not_used.md'))

    # ------------------------------------------------------------------ section 5: findings
    out.append('## 5. Genuine deviations of lschoe/mpyc found by the checks\n\n'
               'Generated from `known_findings.json` (committed; never written at run time). **fixed** = repaired in `/repo` by one minimal unguarded `fix:` commit '
               '(the unedited 71-test suite, and the 84 tests with NumPy, pass after each); a fixed entry suppresses nothing. **known** = recorded, not repaired '
               '(reason in the last column); matched by the mechanism features shown, never by seeds or hashes; on a match the check prints '
               '`KNOWN-FINDING: property=<id> …` and still fails on any other violation of the same property.\n')
    out.append('| id | property | status | what fails | match (known) / commit (fixed) |')
    out.append('|---|---|---|---|---|')
    for e in kf:
        what = e.get('what', '')
        if e['status'] == 'fixed':
            what = e.get('line', what).split(' ', 3)[-1] if e.get('line') else what
            last = e.get('commit', '')
        else:
            last = '`' + esc(json.dumps(e.get('match', {}))) + '`'
        out.append(f'| {e["id"]} | {e["property"]} | {e["status"]} | {esc(what)} | {last} |')
    out.append('')
    out.append(rd('design/why_not_fixed.md'))

    # ------------------------------------------------------------------ section 6: false alarms
    out.append(rd('design/false_alarms.md'))

    # ------------------------------------------------------------------ section 7: seeded changes and mutants
    out.append('## 7. Which checks catch which changes\n\n'
               '### 7.1 Seeded changes written by sub-agents\n\n'
               'Each change was produced by a fresh sub-agent that was given only the text of one property and its own scratch git worktree (nothing from `/verif`), '
               'was asked for a realistic regression that keeps the 71 tests green, and delivered a patch, a demo and notes. Each was re-confirmed here '
               '(`tools/confirm_seeded.py`: tests pass with the change; demo fails with it, passes without) and is kept under `seeded/<name>/`; none was ever committed to `/repo`. '
               '`tools/eval_seeded.py` applies the patch to a scratch copy and runs the quick tier of the checks with `VERIF_REPO` pointing at it. '
               '"first witness" is the first `VIOLATION` line printed.\n')
    out.append('| change | what it does (from the sub-agent\'s notes) | check / tier: verdict | first witness |')
    out.append('|---|---|---|---|')
    for name in sorted(seeded):
        meta = {}
        mp = os.path.join(ROOT, 'seeded', name, 'meta.json')
        if os.path.exists(mp):
            meta = json.load(open(mp))
        title = meta.get('title') or first_line(os.path.join(ROOT, 'seeded', name, 'notes.md'))
        verd = '; '.join(f'{k}: **{v["verdict"] if isinstance(v, dict) else v}**' for k, v in sorted(seeded[name].items()))
        first = next((v.get('first', '') for k, v in sorted(seeded[name].items()) if isinstance(v, dict) and v.get('verdict') == 'caught'), '')
        out.append(f'| {name} | {esc(title)[:230]} | {verd} | {esc(first)[:160]} |')
    out.append('')
    out.append(rd('design/strengthened.md'))
    out.append('### 7.3 Own mutants\n\nSingle-site edits applied with `tools/mutate.py` (scratch copy, `VERIF_REPO`), in addition to the seeded changes.\n')
    out.append('| mutant | file | result per check |')
    out.append('|---|---|---|')
    for name, mres in sorted(mutants.items()):
        out.append(f'| {esc(name)} | {mres.get("file", "")} | ' + ', '.join(f'{c}: **{v}**' for c, v in mres.get('checks', {}).items()) + (f' — {esc(mres["note"])}' if mres.get('note') else '') + ' |')
    out.append('')

    out.append(rd('design/old_51.md').replace('### 5.1 Oracle-strictness lessons from the probes (each would have been a false alarm)', '### 6.1 Oracle-strictness lessons from the design-round probes (each would have been a false alarm)'))
    out.append(rd('design/tail.md'))
    out.append(rd('design/old_A.md'))
    out.append('## Appendix C — design-time reasoning per property (round 0, kept for the rationale; §3 is what was built)\n')
    old3 = rd('design/old_3.md')
    old3 = old3.replace('## 3. Per-property decision procedures', '').replace('\n### C', '\n#### C')
    out.append(old3)
    with open(os.path.join(ROOT, 'DESIGN.md'), 'w') as f:
        f.write('\n'.join(out) + '\n')
    print('DESIGN.md written:', sum(len(x) for x in out), 'chars')


def first_line(p):
    try:
        for l in open(p):
            l = l.strip().lstrip('#').strip()
            if l:
                return l
    except OSError:
        pass
    return ''


if __name__ == '__main__':
    main()
