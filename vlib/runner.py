"""Shared SIM case runner for the protocol-level checks (C08, C09, C35, C01 SIM tier, ...)."""
from vlib import sim, progs

QUICK_CONFIGS = [(1, 0, False), (2, 0, False), (3, 1, False), (3, 1, True), (4, 1, False), (5, 2, False), (5, 1, True), (7, 3, False)]
ALL_CONFIGS = [(m, t, np_) for m in range(1, 8) for t in range(0, (m + 1) // 2) if 2 * t < m for np_ in (False, True)]


def config_name(c):
    return f'm{c[0]}t{c[1]}{"np" if c[2] else "prss"}'


def run_spec(m, t, no_prss, spec, policy, seed, max_steps=2_000_000, build_kwargs=None, world_kwargs=None):
    wk = dict(history='auto')
    wk.update(world_kwargs or {})
    w = sim.World(m, t, no_prss, seed=seed, policy=policy, **wk)
    prog = progs.build(spec, **(build_kwargs or {}))
    w.run(prog, max_steps=max_steps, extend=True)
    return w


def judge_completion(w):
    """C08 (i),(iv): every party ran to completion, no exception reached a loop handler. Returns list of (mechanism, text)."""
    out = []
    if w.status != 'DONE':
        pend = [i for i, r in enumerate(w.results()) if r[0] != 'OK']
        unmatched = [p for p in w.wire_check() if 'multisets differ' in p][:4]
        out.append(('no-termination', f'world ended {w.status}; parties not finished: {pend}; stops: {w.stop_events[:3]}; '
                                      f'errors: {w.error_summaries()[:2]}; label mismatch: {unmatched}'))
        return out
    for i, r in enumerate(w.results()):
        if r[0] != 'OK':
            out.append(('party-failed', f'party {i}: {r}'))
    if w.errors():
        out.append(('loop-error', f'{len(w.errors())} exceptions reached a loop handler: {w.error_summaries()[:3]}'))
    return out


def judge_outputs(w, expected):
    out = []
    res = w.ok_results()
    if res is None:
        return out
    for i, r in enumerate(res):
        if r != expected:
            out.append(('wrong-output', f'party {i} obtained {r}, reference {expected}'))
            break
    return out
