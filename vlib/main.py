"""Driver: bin/check <Cnn> [--tier quick|thorough] [--replay file] [--jobs N]

Runs the check's shards in fresh worker processes (one per configuration / input class),
aggregates what the monitors observed, classifies violations against known_findings.json,
writes evidence/<id>.json and exits 0 (held) / 1 (violation) / 3 (inconclusive).
"""
import os
import sys
import json
import time
import argparse
import importlib
import subprocess
import tempfile
import hashlib
import collections
import concurrent.futures as cf

ROOT = os.path.dirname(os.path.dirname(os.path.abspath(__file__)))
PY = '/venv/bin/python'


def load_known(prop):
    path = os.path.join(ROOT, 'known_findings.json')
    if not os.path.exists(path):
        return []
    with open(path) as f:
        data = json.load(f)
    return [e for e in data.get('findings', []) if e.get('property') == prop and e.get('status') == 'known']


def matches(entry, features):
    for k, v in entry.get('match', {}).items():
        fv = features.get(k)
        if isinstance(v, list):
            if fv not in v:
                return False
        elif fv != v:
            return False
    return True


def run_shard(modname, shard, timeout, tmpdir, idx):
    fin = os.path.join(tmpdir, f'in{idx}.json')
    fout = os.path.join(tmpdir, f'out{idx}.json')
    with open(fin, 'w') as f:
        json.dump(shard, f)
    env = dict(os.environ, PYTHONDONTWRITEBYTECODE='1', PYTHONHASHSEED=os.environ.get('PYTHONHASHSEED', '0'),
               PYTHONPATH=ROOT)
    t0 = time.time()
    try:
        p = subprocess.run([PY, '-m', 'vlib.worker', modname, fin, fout], cwd=ROOT, env=env,
                           stdout=subprocess.PIPE, stderr=subprocess.STDOUT, timeout=timeout, text=True, errors='replace')
        log = p.stdout[-3000:]
        rc = p.returncode
    except subprocess.TimeoutExpired as e:
        log = ((e.stdout or b'')[-2000:]).decode(errors='replace') if isinstance(e.stdout, bytes) else str(e.stdout)[-2000:]
        rc = 'timeout'
    if os.path.exists(fout):
        with open(fout) as f:
            out = json.load(f)
    else:
        out = {'shard': shard, 'evaluations': 0, 'distinct': 0, 'samples': [], 'counters': {}, 'sets': {},
               'violations': [], 'n_violations': 0, 'side': [],
               'inconclusive': [f'worker produced no result (rc={rc}, {time.time()-t0:.0f}s): {log[-800:]}']}
    out['log'] = log
    out['rc'] = rc
    return out


def main(argv=None):
    ap = argparse.ArgumentParser()
    ap.add_argument('prop')
    ap.add_argument('--tier', default=os.environ.get('VERIF_TIER', 'quick'), choices=['quick', 'thorough'])
    ap.add_argument('--replay')
    ap.add_argument('--jobs', type=int, default=int(os.environ.get('VERIF_JOBS', '16')))
    ap.add_argument('--verbose', '-v', action='store_true')
    a = ap.parse_args(argv)
    prop = a.prop.upper()
    modname = prop.lower()
    seed = int(os.environ.get('VERIF_SEED', '0') or 0)
    t0 = time.time()
    sys.path.insert(0, ROOT)
    mod = importlib.import_module(f'checks.{modname}')
    assert mod.PROPERTY == prop
    level = getattr(mod, 'LEVEL', 'exploration')

    if a.replay:
        with open(a.replay) as f:
            rp = json.load(f)
        shard = dict(rp['shard'])
        shard['only'] = rp.get('case')
        shards = [shard]
        tier = rp.get('tier', a.tier)
    else:
        tier = a.tier
        shards = mod.shards(tier, seed)
    for s in shards:
        s.setdefault('tier', tier)
        s.setdefault('seed', seed)
    timeout = getattr(mod, 'TIMEOUT', {}).get(tier, 900 if tier == 'quick' else 7200)

    results = []
    with tempfile.TemporaryDirectory(prefix='verif-') as tmpdir:
        with cf.ThreadPoolExecutor(max_workers=max(1, a.jobs)) as ex:
            futs = [ex.submit(run_shard, modname, s, timeout, tmpdir, i) for i, s in enumerate(shards)]
            for fu in futs:
                results.append(fu.result())

    # ---- aggregate ----------------------------------------------------------------------
    evaluations = sum(r['evaluations'] for r in results)
    distinct = sum(r['distinct'] for r in results)
    counters = collections.Counter()
    sets = collections.defaultdict(set)
    samples, side, inconcl = [], [], []
    for r in results:
        counters.update(r['counters'])
        for k, v in r['sets'].items():
            sets[k].update(v)
        for s in r['samples']:
            if len(samples) < 12:
                samples.append(s)
        side += r.get('side', [])[:5]
        for why in r['inconclusive']:
            inconcl.append(f"shard {r['shard'].get('name')}: {why}")
        if a.verbose and r.get('log'):
            print(f"--- shard {r['shard'].get('name')} rc={r['rc']}\n{r['log']}")

    # ---- minimum reach required for a 'held' verdict ---------------------------------------
    if not a.replay:
        for name, minimum in getattr(mod, 'REQUIRE', {}).get(tier, getattr(mod, 'REQUIRE', {}).get('any', {})).items():
            if name.startswith('seen:'):               # size of an observed set (distinct values seen by a monitor)
                got = len(sets.get(name[5:], ()))
            else:
                got = counters.get(name, 0)
            if got < minimum:
                inconcl.append(f'monitor counter {name}={got} < required {minimum}')

    # ---- classify violations -------------------------------------------------------------
    known = load_known(prop)
    known_hit = collections.OrderedDict()
    unknown = []
    total_viol = 0
    for r in results:
        total_viol += r['n_violations']
        for v in r['violations']:
            v['shard'] = r['shard']
            hit = next((e for e in known if matches(e, v['features'])), None)
            if hit is not None:
                known_hit.setdefault(hit['id'], {'entry': hit, 'n': 0, 'first': v})['n'] += 1
            else:
                unknown.append(v)
        # violations beyond the per-shard cap cannot be classified: be conservative only if some were unknown
    replay_paths = []
    if unknown:
        rdir = os.path.join(ROOT, 'replays', prop)
        os.makedirs(rdir, exist_ok=True)
        seen = set()
        for v in unknown:
            key = hashlib.blake2b(json.dumps([v['shard'], v['case'], v['what']], sort_keys=True).encode(), digest_size=6).hexdigest()
            if key in seen:
                continue
            seen.add(key)
            path = os.path.join(rdir, f'{key}.json')
            with open(path, 'w') as f:
                json.dump({'property': prop, 'tier': tier, 'seed': seed, 'shard': {k: w for k, w in v['shard'].items() if k != 'only'},
                           'case': v['case'], 'what': v['what'], 'features': v['features'], 'witness': v['witness']}, f, indent=1)
            replay_paths.append((path, v))

    for fid, kh in known_hit.items():
        print(f"KNOWN-FINDING: property={prop} {fid}: {kh['entry']['what']} [{kh['n']} occurrence(s); e.g. {kh['first']['what'][:160]}]")
    for path, v in replay_paths[:25]:
        print(f"VIOLATION property={prop} replay={os.path.relpath(path, ROOT)}  # {v['what'][:300]}")
    if len(replay_paths) > 25:
        print(f'... {len(replay_paths) - 25} more violation replays written')

    # ---- evidence ---------------------------------------------------------------------------
    wall = round(time.time() - t0, 2)
    coverage = {
        'evaluations': evaluations,
        'distinct_nontrivial': distinct,
        'rule': getattr(mod, 'RULE', ''),
        'samples': samples,
        'shards': len(results),
        'monitor_counters': dict(sorted(counters.items())),
        'observed_sets': {k: {'n': len(v), 'values': sorted(v, key=repr)[:60]} for k, v in sorted(sets.items())},
        'known_findings_hit': {fid: kh['n'] for fid, kh in known_hit.items()},
        'side_observations': side[:20],
        'inconclusive_reasons': inconcl[:20],
        'technique': getattr(mod, 'TECHNIQUE', ''),
    }
    if getattr(mod, 'EXHAUSTIVE', None):
        coverage['exhaustive'] = True
        coverage['exhaustive_note'] = mod.EXHAUSTIVE if isinstance(mod.EXHAUSTIVE, str) else ''
    ev = {'property_id': prop, 'tier': tier, 'seed': seed, 'level': level, 'coverage': coverage,
          'assumptions': list(getattr(mod, 'ASSUMPTIONS', [])), 'wall_s': wall, 'violations': len(unknown),
          'verdict': 'violated' if unknown else ('inconclusive' if inconcl else 'held')}
    if not a.replay and not os.environ.get('VERIF_NO_EVIDENCE'):
        os.makedirs(os.path.join(ROOT, 'evidence'), exist_ok=True)
        tmp = os.path.join(ROOT, 'evidence', f'.{prop}.json.tmp')
        with open(tmp, 'w') as f:
            json.dump(ev, f, indent=1, sort_keys=True)
        os.replace(tmp, os.path.join(ROOT, 'evidence', f'{prop}.json'))

    print(f"{prop} tier={tier} seed={seed} shards={len(results)} evaluations={evaluations} distinct_nontrivial={distinct} "
          f"known_findings={len(known_hit)} violations={len(unknown)} wall={wall}s "
          + ' '.join(f'{k}={v}' for k, v in sorted(counters.items())[:14]))
    if unknown:
        return 1
    if inconcl:
        for why in inconcl[:10]:
            print(f'INCONCLUSIVE property={prop} reason={why[:1200]}')
        return 3
    return 0


if __name__ == '__main__':
    sys.exit(main())
