"""Process environment for workers: which mpyc tree is imported, numpy or not, argv neutralised."""
import os
import sys

ROOT = os.path.dirname(os.path.dirname(os.path.abspath(__file__)))
REPO = os.environ.get('VERIF_REPO', '/repo')


def prepare(numpy=False):
    """Must be called before the first `import mpyc`."""
    assert 'mpyc' not in sys.modules, 'env.prepare() after mpyc import'
    os.environ['PYTHONDONTWRITEBYTECODE'] = '1'
    sys.dont_write_bytecode = True
    if REPO in sys.path:
        sys.path.remove(REPO)
    sys.path.insert(0, REPO)                      # the working tree under test goes first
    if numpy:
        from vlib import deps
        d = deps.ensure(['numpy'])
        if d not in sys.path:
            sys.path.insert(1, d)
        os.environ.pop('MPYC_NONUMPY', None)
    else:
        os.environ['MPYC_NONUMPY'] = '1'
    os.environ['MPYC_NOGMPY'] = '1'
    sys.argv = [sys.argv[0], '--no-log']          # mpyc.runtime.setup() parses sys.argv at import
    import logging
    logging.disable(logging.ERROR)
    import mpyc
    got = os.path.realpath(os.path.dirname(os.path.dirname(mpyc.__file__)))
    assert got == os.path.realpath(REPO), f'mpyc imported from {got}, expected {REPO}'
    return mpyc


def contracts():
    """icontract / deal on sys.path (optional helpers)."""
    from vlib import deps
    d = deps.ensure(['icontract', 'deal'])
    if d not in sys.path:
        sys.path.append(d)
