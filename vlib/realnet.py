"""REALNET cross-check tier: m real Runtimes in one process on the stock selector event loop, connected by the
real Runtime.start() over loopback TCP.  Shows that SIM's transport emulation does not misrepresent real transports.
Verdicts use logical facts only (outputs, labels); a watchdog expiry is inconclusive."""
import socket
import asyncio
import contextvars
import random
import collections

from vlib import sim, progs


def free_ports(n):
    socks = [socket.socket() for _ in range(n)]
    for s in socks:
        s.bind(('127.0.0.1', 0))
    ports = [s.getsockname()[1] for s in socks]
    for s in socks:
        s.close()
    return ports


class Wire:
    def __init__(self):
        self.log = []


def run_real(m, t, no_prss, program, seed=0, timeout=120, sec_param=30):
    """returns (runtimes, results or None, wire log, error string or None)"""
    ns = sim.install()
    sim.clear_type_caches()
    ns.shim.reseed(seed)
    asyncoro = ns.asyncoro
    wire = []
    MX = asyncoro.MessageExchanger
    o_send, o_recv = MX.send, MX.receive

    def send(self, pc, payload):
        wire.append(('s', self.runtime.pid, self.peer_pid, pc, len(payload)))
        return o_send(self, pc, payload)

    def receive(self, pc):
        wire.append(('r', self.runtime.pid, self.peer_pid, pc, 0))
        return o_recv(self, pc)
    MX.send, MX.receive = send, receive
    old_W = sim._W
    sim._W = None
    loop = asyncio.new_event_loop()
    errors = []
    loop.set_exception_handler(lambda l, c: errors.append(c))
    try:
        asyncio.set_event_loop(loop)
        ports = free_ports(m)
        rts, ctxs = [], []
        parser = ns.mpyc._get_arg_parser()
        for i in range(m):
            o, _ = parser.parse_known_args([])
            o.threshold, o.no_prss, o.no_async, o.ssl, o.sec_param, o.no_log = t, no_prss, False, False, sec_param, True
            c = contextvars.copy_context()

            def mk(i=i, o=o):
                rt = ns.rtmod.Runtime.__new__(ns.rtmod.Runtime)
                sim.CUR.set(rt)
                rt.pid = i
                rt.__init__(i, [ns.rtmod.Party(j, '127.0.0.1', ports[j]) for j in range(m)], o)
                rt._loop = loop
                return rt
            rts.append(c.run(mk))
            ctxs.append(c)
        loop.set_exception_handler(lambda l, c: errors.append(c))

        async def main(pid):
            mpc = ns.proxy
            await mpc.start()
            r = await program(mpc, pid)
            await mpc.shutdown()
            return r
        tasks = [ctxs[i].run(lambda i=i: loop.create_task(main(i))) for i in range(m)]
        try:
            res = loop.run_until_complete(asyncio.wait_for(asyncio.gather(*tasks), timeout))
            err = None
        except asyncio.TimeoutError:
            res, err = None, 'watchdog'
        except Exception as e:
            res, err = None, f'{type(e).__name__}: {e}'
        try:
            loop.run_until_complete(asyncio.sleep(0.02))
        except Exception:
            pass
        return rts, res, wire, err, errors
    finally:
        MX.send, MX.receive = o_send, o_recv
        sim._W = old_W
        try:
            loop.close()
        except Exception:
            pass
        asyncio.set_event_loop(None)


def wire_problems(wire):
    sends = collections.Counter((a, b, pc) for k, a, b, pc, n in wire if k == 's')
    recvs = collections.Counter((b, a, pc) for k, a, b, pc, n in wire if k == 'r')
    out = []
    dup = [k for k, n in sends.items() if n > 1]
    if dup:
        out.append(('duplicate-label', f'duplicate labels on real TCP: {dup[:3]}'))
    if sends != recvs:
        out.append(('label-mismatch', f'send/receive multisets differ on real TCP: {list((sends - recvs).elements())[:3]} / {list((recvs - sends).elements())[:3]}'))
    return out


def run_c08(shard, rec):
    rng = random.Random(f"realnet/{shard['seed']}")
    for cfg in shard['cfgs']:
        m, t, no_prss = cfg
        for pi in range(shard['programs']):
            spec = progs.gen(rng, m, l=32, ops=progs.CHEAP)
            spec['sleepy'] = None        # F-C08-1 would hang here and a real-network hang is only ever 'inconclusive'
            expected = progs.expected_outputs(spec)
            case = ['realnet', cfg, pi]
            if not rec.wants(case):
                continue
            rts, res, wire, err, errors = run_real(m, t, no_prss, progs.build(spec), seed=rng.randrange(1 << 30))
            rec.count('realnet_runs')
            if err == 'watchdog':
                rec.inconclusive_because(f'REALNET watchdog fired for {cfg} program {pi}')
                continue
            if err:
                rec.violation(f'REALNET {cfg} program {pi}: {err}', {'mechanism': 'realnet-failure'}, {'spec': spec}, case=case)
                continue
            for i, r in enumerate(res):
                if r != expected:
                    rec.violation(f'REALNET {cfg} program {pi}: party {i} obtained {r}, reference {expected}', {'mechanism': 'wrong-output'}, {'spec': spec}, case=case)
                    break
            for mech, text in wire_problems(wire):
                rec.violation(f'REALNET {cfg} program {pi}: {text}', {'mechanism': mech}, {'spec': spec}, case=case)
            if errors:
                rec.violation(f'REALNET {cfg} program {pi}: loop exception handler called: {str(errors[0])[:200]}', {'mechanism': 'loop-error'}, {'spec': spec}, case=case)
            rec.case(case, nontrivial=m >= 2, sample={'engine': 'REALNET', 'config': cfg, 'messages': sum(1 for w in wire if w[0] == 's'), 'outputs': expected} if pi == 0 else None)
