"""Recorder: what a shard (one worker process) observed.  Serialised to JSON for the driver."""
import json
import hashlib
import collections
import time


def jsonable(x, depth=0):
    if depth > 8:
        return repr(x)[:200]
    if isinstance(x, (str, int, bool)) or x is None:
        if isinstance(x, int) and not isinstance(x, bool) and abs(x) > 1 << 62:
            return str(x)
        return x
    if isinstance(x, float):
        return x if x == x and abs(x) != float('inf') else repr(x)
    if isinstance(x, dict):
        return {str(k): jsonable(v, depth + 1) for k, v in x.items()}
    if isinstance(x, (list, tuple, set, frozenset)):
        return [jsonable(v, depth + 1) for v in (sorted(x, key=repr) if isinstance(x, (set, frozenset)) else x)]
    if isinstance(x, bytes):
        return x.hex()
    return repr(x)[:300]


def h64(x):
    return hashlib.blake2b(repr(x).encode(), digest_size=8).hexdigest()


class CpuBudgetExceeded(Exception):
    """the guarded block used more than its budget of process CPU time (a harness limit set far above what the unchanged library needs)"""


class _Guard:
    def __init__(self, rec, what, case, features, cpu_seconds=None):
        self.rec, self.what, self.case, self.features = rec, what, case, features
        self.failed = False
        self.cpu_seconds = cpu_seconds
        self._old = None

    def __enter__(self):
        if self.cpu_seconds:
            import signal

            def _alarm(signum, frame):
                raise CpuBudgetExceeded(f'no result after {self.cpu_seconds} s of CPU time')
            self._old = signal.signal(signal.SIGVTALRM, _alarm)
            signal.setitimer(signal.ITIMER_VIRTUAL, self.cpu_seconds)       # process CPU time: independent of the load of the machine
        return self

    def __exit__(self, et, ev, tb):
        if self.cpu_seconds:
            import signal
            signal.setitimer(signal.ITIMER_VIRTUAL, 0)
            signal.signal(signal.SIGVTALRM, self._old)
        if et is None or not issubclass(et, Exception):
            return False
        import traceback
        self.failed = True
        f = dict(self.features or {})
        f.setdefault('mechanism', 'exception')
        f.setdefault('exc', et.__name__)
        where = traceback.extract_tb(tb)[-1]
        self.rec.violation(f'{self.what}: raised {et.__name__}: {ev} at {where.filename.split("/")[-1]}:{where.lineno}', f,
                           {'case': self.case, 'traceback': traceback.format_exception(et, ev, tb)[-3:]}, case=self.case)
        return True


class Recorder:
    MAX_SAMPLES = 3
    MAX_PER_SIG = 6
    MAX_SIGS = 80
    MAX_SET = 400

    def __init__(self, prop, shard):
        self.prop = prop
        self.shard = shard
        self.only = shard.get('only')
        self.evaluations = 0
        self.distinct = set()
        self.samples = []
        self.counters = collections.Counter()
        self.sets = collections.defaultdict(set)
        self.violations = []
        self.n_violations = 0
        self._sig_count = collections.Counter()
        self.inconclusive = []
        self.side = []
        self.t0 = time.time()

    # -- coverage ---------------------------------------------------------------------------
    def case(self, key, nontrivial=True, sample=None):
        """One explored case. `key` identifies it (within the shard); counted distinct if nontrivial."""
        self.evaluations += 1
        if nontrivial:
            self.distinct.add(h64(key))
        if sample is not None and len(self.samples) < self.MAX_SAMPLES:
            self.samples.append(jsonable(sample))

    def wants(self, key):
        """Replay filter: with --replay only the recorded case is executed."""
        return self.only is None or jsonable(key) == self.only

    def count(self, name, n=1):
        self.counters[name] += n

    def seen(self, name, value):
        s = self.sets[name]
        if len(s) < self.MAX_SET:
            s.add(value if isinstance(value, (str, int)) else json.dumps(jsonable(value)))

    def note_side(self, what):
        if len(self.side) < 20:
            self.side.append(str(what)[:400])

    # -- verdicts ---------------------------------------------------------------------------
    def violation(self, what, features=None, witness=None, case=None):
        """A refutation of the property. `features` = mechanism features for the known-findings classifier."""
        self.n_violations += 1
        sig = json.dumps(jsonable(features or {}), sort_keys=True)
        self._sig_count[sig] += 1
        # cap per mechanism signature, so that a frequent (possibly known) mechanism never crowds out a rare one
        if self._sig_count[sig] <= self.MAX_PER_SIG and len(self._sig_count) <= self.MAX_SIGS:
            self.violations.append({'what': str(what)[:600], 'features': jsonable(features or {}),
                                    'witness': jsonable(witness), 'case': jsonable(case)})

    def guard(self, what, case=None, features=None, cpu_seconds=None):
        """context manager: an exception escaping the code under test inside the block is a violation (not a harness failure);
        cpu_seconds: a block that burns that much process CPU time is interrupted and reported the same way (non-termination)"""
        return _Guard(self, what, case, features, cpu_seconds or getattr(self, 'default_cpu_seconds', None))

    def inconclusive_because(self, reason):
        self.inconclusive.append(str(reason)[:400])

    def dump(self):
        return {'prop': self.prop, 'shard': self.shard, 'evaluations': self.evaluations,
                'distinct': len(self.distinct), 'samples': self.samples,
                'counters': dict(self.counters),
                'sets': {k: sorted(v, key=repr) for k, v in self.sets.items()},
                'violations': self.violations, 'n_violations': self.n_violations,
                'inconclusive': self.inconclusive, 'side': self.side,
                'wall_s': round(time.time() - self.t0, 2)}
