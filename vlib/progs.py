"""Random secure-integer programs (typed DAGs) with a Python reference interpreter.

A spec is JSON-able: {'l', 'inputs': [[sender, value]], 'steps': [[op, [arg node ids], const]], 'outs': [[node ids], ...],
'barrier_at', 'await_twice', 'dangling', 'nested'}.  The same spec is run by every party.
"""
import math
import random

# op -> (arity, needs_const)
OPS = {
    'add': 2, 'sub': 2, 'mul': 2, 'neg': 1, 'pow': 1, 'lt': 2, 'le': 2, 'eq': 2, 'ne': 2, 'ge': 2, 'gt': 2, 'sgn': 1, 'abs': 1,
    'min2': 2, 'max2': 2, 'minl': 3, 'maxl': 3, 'ifelse': 3, 'ifswap0': 3, 'ifswap1': 3, 'ifelse_l': 3, 'floordiv': 1, 'mod': 1, 'divmod0': 1, 'divmod1': 1,
    'rshift': 1, 'lshift': 1, 'lsb': 1, 'sum': 3, 'prod': 3, 'all': 3, 'any': 3, 'inprod': 4, 'matprod': 4, 'gcd': 2, 'lcm': 2,
    'gcdext_g': 2, 'gcdext_bez': 2, 'inverse': 2, 'iszero_pub': 1, 'eq_pub': 2, 'nested': 3, 'addc': 1, 'mulc': 1, 'rsubc': 1, 'sq': 1,
    'eqz': 1, 'not': 1, 'and': 2, 'or': 2, 'xor': 2,
}
CHEAP = ['add', 'sub', 'mul', 'neg', 'lt', 'eq', 'ge', 'max2', 'ifelse', 'sum', 'prod', 'nested', 'abs', 'mod', 'addc', 'mulc', 'sgn', 'lsb', 'inprod',
         'iszero_pub', 'ifswap0', 'pow', 'minl', 'rshift', 'ne', 'le', 'gt', 'min2']
ALL = list(OPS)


def b01(x):
    return int(bool(x))


def ref_op(op, a, c):
    """reference value of one step; a = argument values, c = public constant"""
    if op == 'add': return a[0] + a[1]
    if op == 'sub': return a[0] - a[1]
    if op == 'mul': return a[0] * a[1]
    if op == 'neg': return -a[0]
    if op == 'pow': return a[0] ** c
    if op == 'sq': return a[0] * a[0]
    if op == 'lt': return b01(a[0] < a[1])
    if op == 'le': return b01(a[0] <= a[1])
    if op == 'eq': return b01(a[0] == a[1])
    if op == 'ne': return b01(a[0] != a[1])
    if op == 'ge': return b01(a[0] >= a[1])
    if op == 'gt': return b01(a[0] > a[1])
    if op == 'eqz': return b01(a[0] == 0)
    if op == 'sgn': return (a[0] > 0) - (a[0] < 0)
    if op == 'abs': return abs(a[0])
    if op == 'min2': return min(a[0], a[1])
    if op == 'max2': return max(a[0], a[1])
    if op == 'minl': return min(a)
    if op == 'maxl': return max(a)
    if op == 'ifelse': return a[1] if a[0] < a[2] else a[2]          # condition a0 < a2
    if op == 'ifelse_l': return (a[1] if a[0] < a[2] else a[2]) + (a[0] if a[0] < a[2] else a[1])
    if op == 'ifswap0': return a[2] if a[0] < a[1] else a[1]          # if_swap(c, x, y) -> (y, x) if c else (x, y); x=a1, y=a2
    if op == 'ifswap1': return a[1] if a[0] < a[1] else a[2]
    if op == 'floordiv': return a[0] // c
    if op == 'mod': return a[0] % c
    if op == 'divmod0': return divmod(a[0], c)[0]
    if op == 'divmod1': return divmod(a[0], c)[1]
    if op == 'rshift': return a[0] >> c
    if op == 'lshift': return a[0] << c
    if op == 'lsb': return a[0] % 2
    if op == 'sum': return sum(a)
    if op == 'prod': return a[0] * a[1] * a[2]
    if op == 'all': return b01(all(a))
    if op == 'any': return b01(any(a))
    if op == 'inprod': return a[0] * a[1] + a[2] * a[3]
    if op == 'matprod': return (a[0] * a[2] + a[1] * a[3]) - (a[0] * a[3] + a[1] * a[2])   # [[a0,a1]] @ [[a2,a3],[a3,a2]] -> difference of the two entries
    if op == 'gcd': return math.gcd(a[0], a[1])
    if op == 'lcm': return math.lcm(a[0], a[1])
    if op == 'gcdext_g': return math.gcd(a[0], a[1])
    if op == 'gcdext_bez': return math.gcd(a[0], a[1])
    if op == 'inverse': return pow(a[0], -1, a[1])
    if op == 'iszero_pub': return b01(a[0] == 0)
    if op == 'eq_pub': return b01(a[0] == a[1])
    if op == 'nested': return a[0] * a[1] + a[2]
    if op == 'addc': return a[0] + c
    if op == 'mulc': return a[0] * c
    if op == 'rsubc': return c - a[0]
    if op == 'not': return 1 - b01(a[0])
    if op == 'and': return b01(a[0]) & b01(a[1])
    if op == 'or': return b01(a[0]) | b01(a[1])
    if op == 'xor': return b01(a[0]) ^ b01(a[1])
    raise KeyError(op)


def gen(rng, m, l=32, n_steps=(3, 9), ops=CHEAP, features=True, n_inputs=(2, 4)):
    lim = 1 << (l - 1)
    small = min(lim - 1, 40)
    n_in = rng.randint(*n_inputs)
    special = [0, 1, -1, 2, lim - 1, -lim, lim // 2, -(lim // 2), 3]
    inputs = []
    for i in range(n_in):
        v = rng.choice(special) if rng.random() < 0.35 else rng.randint(-small, small)
        inputs.append([rng.randrange(m), v])
    vals = [v for _, v in inputs]
    steps = []
    tries = 0
    target = rng.randint(*n_steps)
    while len(steps) < target and tries < 400:
        tries += 1
        op = rng.choice(ops)
        ar = OPS[op]
        args = [rng.randrange(len(vals)) for _ in range(ar)]
        c = None
        av = [vals[i] for i in args]
        if op == 'pow':
            c = rng.choice([0, 1, 2, 3, 5])
        elif op in ('floordiv', 'mod', 'divmod0', 'divmod1'):
            c = rng.choice([2, 3, 5, 7, 16, 10, 1, lim - 1 if l <= 16 else 1000003])
            if c >= lim:
                c = 3
        elif op in ('rshift', 'lshift'):
            c = rng.choice([0, 1, 2, 3, l // 2])
        elif op in ('addc', 'mulc', 'rsubc'):
            c = rng.choice([0, 1, -1, 2, -3, 7, small])
        if op in ('gcd', 'lcm', 'gcdext_g', 'gcdext_bez'):
            if l > 16 and max(abs(av[0]), abs(av[1])) > 2 ** 12:
                continue
        if op == 'inverse':
            if not (av[1] >= 2 and math.gcd(av[0], av[1]) == 1 and av[1] < 2 ** 12 and abs(av[0]) < 2 ** 12):
                continue
        if op in ('and', 'or', 'xor', 'not', 'all', 'any'):
            if any(v not in (0, 1) for v in av):
                continue
        try:
            r = ref_op(op, av, c)
        except (ZeroDivisionError, ValueError, OverflowError):
            continue
        # the property's side condition: every intermediate value stays within l bits
        inter = [r]
        if op in ('prod',):
            inter.append(av[0] * av[1])
        if op in ('inprod', 'matprod', 'nested', 'lcm', 'gcdext_bez', 'ifelse_l'):
            inter += [av[0] * av[1]] + ([av[2] * av[3]] if len(av) > 3 else []) + ([av[0] * av[3], av[1] * av[2]] if op == 'matprod' else [])
        if op == 'pow':
            inter += [av[0] ** k for k in range(c + 1)]
        if op in ('sub', 'lt', 'le', 'ge', 'gt', 'min2', 'max2', 'minl', 'maxl', 'ifelse', 'ifswap0', 'ifswap1', 'ifelse_l', 'eq', 'ne', 'eq_pub'):
            # comparisons are computed on differences: keep those in range too
            inter += [x - y for x in av for y in av]
        if op in ('lshift',):
            inter.append(av[0] << c)
        if op in ('sum',):
            inter += [av[0] + av[1]]
        if op in ('abs', 'sgn', 'neg'):
            inter.append(-av[0])
        if op in ('lcm',):
            inter += [av[0] * av[1]]
        if not all(-lim <= x < lim for x in inter):
            continue
        steps.append([op, args, c])
        vals.append(r)
    n_nodes = len(vals)
    outs = []
    pool = list(range(n_nodes))
    for _ in range(rng.randint(1, 3)):
        outs.append(rng.sample(pool, k=min(len(pool), rng.randint(1, 3))))
    spec = {'l': l, 'inputs': inputs, 'steps': steps, 'outs': outs, 'barrier_at': None, 'await_twice': False, 'early_await': None, 'sleepy': None}
    if features:
        spec['barrier_at'] = rng.choice([None, None, rng.randint(0, max(0, len(steps)))])
        spec['await_twice'] = rng.random() < 0.4
        spec['early_await'] = rng.choice([None, None, rng.randrange(n_nodes)])
        spec['sleepy'] = rng.choice([None, None, rng.randrange(m)])
        spec['yield_at'] = {str(rng.randrange(max(1, len(steps)))): rng.randint(1, 4) for _ in range(rng.choice([0, 1, 1, 2]))}
    return spec


def ref_eval(spec):
    vals = [v for _, v in spec['inputs']]
    for op, args, c in spec['steps']:
        vals.append(ref_op(op, [vals[i] for i in args], c))
    return vals


def expected_outputs(spec):
    vals = ref_eval(spec)
    return [[vals[i] for i in group] for group in spec['outs']]


def apply_op(mpc, secint, op, x, c, nested):
    """the real operation for one step; x = list of secure operands"""
    if op == 'add': return x[0] + x[1]
    if op == 'sub': return x[0] - x[1]
    if op == 'mul': return x[0] * x[1]
    if op == 'neg': return -x[0]
    if op == 'pow': return x[0] ** c
    if op == 'sq': return x[0] * x[0]
    if op == 'lt': return x[0] < x[1]
    if op == 'le': return x[0] <= x[1]
    if op == 'eq': return x[0] == x[1]
    if op == 'ne': return x[0] != x[1]
    if op == 'ge': return x[0] >= x[1]
    if op == 'gt': return x[0] > x[1]
    if op == 'eqz': return mpc.is_zero(x[0])
    if op == 'sgn': return mpc.sgn(x[0])
    if op == 'abs': return abs(x[0])
    if op == 'min2': return mpc.min(x[0], x[1])
    if op == 'max2': return mpc.max(x[0], x[1])
    if op == 'minl': return mpc.min(list(x))
    if op == 'maxl': return mpc.max(list(x))
    if op == 'ifelse': return mpc.if_else(x[0] < x[2], x[1], x[2])
    if op == 'ifelse_l':
        r = mpc.if_else(x[0] < x[2], [x[1], x[0]], [x[2], x[1]])
        r.append(r.pop(0))
        return r[1] + r[0]
    if op == 'ifswap0': return mpc.if_swap(x[0] < x[1], x[1], x[2])[0]
    if op == 'ifswap1': return mpc.if_swap(x[0] < x[1], x[1], x[2])[1]
    if op == 'floordiv': return x[0] // c
    if op == 'mod': return x[0] % c
    if op == 'divmod0': return divmod(x[0], c)[0]
    if op == 'divmod1': return divmod(x[0], c)[1]
    if op == 'rshift': return x[0] >> c
    if op == 'lshift': return x[0] << c
    if op == 'lsb': return mpc.lsb(x[0])
    # list-valued arguments: the caller goes on using its own lists right after the call (as demos/lpsolver.py does); results are those of the lists as passed
    if op in ('sum', 'prod', 'all', 'any'):
        a = list(x)
        r = {'sum': mpc.sum, 'prod': mpc.prod, 'all': mpc.all, 'any': mpc.any}[op](a)
        _reuse(a)
        return r
    if op == 'inprod':
        a, b = [x[0], x[2]], [x[1], x[3]]
        r = mpc.in_prod(a, b)
        _reuse(a, b)
        return r
    if op == 'matprod':
        A, B = [[x[0], x[1]]], [[x[2], x[3]], [x[3], x[2]]]
        r = mpc.matrix_prod(A, B)
        _reuse(A[0], B[0], B[1], B)
        row = r[0]
        row.reverse()                      # result lists are the caller's too: rearranged before the product has been computed
        return row[1] - row[0]
    if op == 'gcd': return mpc.gcd(x[0], x[1])
    if op == 'lcm': return mpc.lcm(x[0], x[1])
    if op == 'gcdext_g': return mpc.gcdext(x[0], x[1])[0]
    if op == 'gcdext_bez':
        g, s, t = mpc.gcdext(x[0], x[1])
        return s * x[0] + t * x[1]
    if op == 'inverse': return mpc.inverse(x[0], x[1])
    if op == 'iszero_pub': return mpc.is_zero_public(x[0])
    if op == 'eq_pub': return mpc.eq_public(x[0], x[1])
    if op == 'nested': return nested(x[0], x[1], x[2])
    if op == 'addc': return x[0] + c
    if op == 'mulc': return c * x[0]
    if op == 'rsubc': return c - x[0]
    if op == 'not': return 1 - x[0]
    if op == 'and': return x[0] & x[1] if hasattr(type(x[0]), '__and__') and False else x[0] * x[1]
    if op == 'or': return x[0] + x[1] - x[0] * x[1]
    if op == 'xor': return x[0] + x[1] - 2 * x[0] * x[1]
    raise KeyError(op)


def _reuse(*lists):
    """in-place edits of argument lists after a call"""
    for L in lists:
        if len(L) >= 2:
            L[0], L[-1] = L[-1], L[0]
        if L:
            L.append(L[0])
            L[0] = L[-1] if not isinstance(L[0], list) else L[0]


PUBLIC_OPS = ('iszero_pub', 'eq_pub')


def timing_skew(spec):
    """does the program make the parties reach some top-level call at different moments (relative to their other work)?  Sources: one party yielding to
    its event loop (`sleepy`), a public result awaited in the middle of the program and used as an operand, a result opened early (`early_await`)."""
    if spec.get('sleepy') is not None or spec.get('early_await') is not None:
        return True
    n_in = len(spec['inputs'])
    pub = {n_in + k for k, (op, args, c) in enumerate(spec['steps']) if op in PUBLIC_OPS}
    return any(i in pub for op, args, c in spec['steps'] for i in args)


def build(spec, on_node=None, do_shutdown_sync=False):
    """async program(mpc, pid) -> list of output groups (ints).  Public-result nodes (futures of bools) become ints.
    on_node(k, secure_or_future) lets a check register program-visible nodes (e.g. for the share monitor)."""
    import asyncio

    async def program(mpc, pid):
        secint = mpc.SecInt(spec['l'])

        @mpc.coroutine
        async def nested(x, y, z):
            await mpc.returnType(secint)
            t = x * y
            return t + z
        nodes = []
        for sender, v in spec['inputs']:
            nodes.append(mpc.input(secint(v if pid == sender else 0), senders=sender))
        pub = {}
        for k, (op, args, c) in enumerate(spec['steps']):
            if spec.get('barrier_at') == k:
                await mpc.barrier()
            if spec.get('sleepy') == pid and k == 1:
                await asyncio.sleep(0)
            for _ in range((spec.get('yield_at') or {}).get(str(k), 0)):
                await asyncio.sleep(0)           # every party yields to its event loop here (symmetric)
            xs = [nodes[i] for i in args]
            if any(i in pub for i in args):
                # operands that are public futures: await and re-enter as public ints (legal program style)
                for j, i in enumerate(args):
                    if i in pub:
                        xs[j] = secint(int(await nodes[i]))
            r = apply_op(mpc, secint, op, xs, c, nested)
            idx = len(nodes)
            if op in PUBLIC_OPS:
                pub[idx] = True
            nodes.append(r)
            if on_node is not None:
                on_node(idx, r)
            if spec.get('early_await') == idx and idx not in pub:
                await mpc.output(r)                      # result consumed early; awaited again below if also an output
        if spec.get('barrier_at') == len(spec['steps']):
            await mpc.barrier()
        results = []
        futs = []
        for group in spec['outs']:
            sec = [nodes[i] for i in group if i not in pub]
            futs.append(mpc.output(sec) if sec else None)
        for group, fut in zip(spec['outs'], futs):
            got = list(await fut) if fut is not None else []
            if spec.get('await_twice') and fut is not None:
                again = list(await fut)
                assert again == got, 'second await of the same output future differs'
            it = iter(got)
            row = []
            for i in group:
                if i in pub:
                    row.append(int(await nodes[i]))
                else:
                    row.append(int(next(it)))
            results.append(row)
        return results
    return program


def threshold_switch_program(values=(3, 7, 5, 2)):
    """Two phases in one session with the threshold changed in between through the public setter (only without PRSS: with PRSS the keys
    would have to be exchanged again, which needs a new start()).  The second phase uses fresh inputs only.  Returns (program, expected)."""
    a, b, c, d = values

    async def program(mpc, pid):
        m = len(mpc.parties)
        secint = mpc.SecInt(16)
        secfxp = mpc.SecFxp(16, 8)
        xs = mpc.input([secint(a if pid == 0 else 0), secint(b if pid == 0 else 0)], senders=0)
        p1 = xs[0] * xs[1] + xs[0]
        q1 = mpc.schur_prod(xs, xs)
        r1 = [await mpc.output(p1)] + await mpc.output(q1)
        fx = mpc.input(secfxp(1.5 if pid == m - 1 else 0.0, integral=False), senders=m - 1)
        r1.append(await mpc.output(fx * fx))
        if mpc.options.no_prss and m >= 3:
            await mpc.barrier()
            t0 = mpc.threshold
            # prefer lowering to a threshold that still reshares (t-1 >= 1), else raising, else the public phase t = 0
            mpc.threshold = t0 - 1 if t0 - 1 >= 1 else (t0 + 1 if 2 * (t0 + 1) < m else max(t0 - 1, 0))
        ys = mpc.input([secint(c if pid == m - 1 else 0), secint(d if pid == m - 1 else 0)], senders=m - 1)
        p2 = ys[0] * ys[1] - ys[1]
        q2 = mpc.schur_prod(ys, ys)
        z2 = ys[0] < ys[1]
        r2 = [await mpc.output(p2)] + await mpc.output(q2) + [await mpc.output(z2)]
        gy = mpc.input(secfxp(2.25 if pid == 0 else 0.0, integral=False), senders=0)
        r2.append(await mpc.output(gy * gy))
        return [r1, r2]
    expected = [[a * b + a, a * a, b * b, 2.25], [c * d - d, c * c, d * d, int(c < d), 5.0625]]
    return program, expected
