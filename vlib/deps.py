"""Offline installation of third-party helpers (numpy, icontract, deal) into /verif/.deps.

A restored checkout does not contain .deps (git-ignored), so setup_cmd *and* every check that
needs numpy call ensure() which is idempotent and serialised with flock.
"""
import os
import sys
import fcntl
import subprocess

ROOT = os.path.dirname(os.path.dirname(os.path.abspath(__file__)))
DEPS = os.path.join(ROOT, '.deps')
WHEELS = '/opt/veriftools/wheels'
PKGS = ['numpy', 'icontract', 'deal']


def _have(pkg):
    return os.path.isdir(os.path.join(DEPS, pkg))


def ensure(pkgs=PKGS):
    os.makedirs(DEPS, exist_ok=True)
    missing = [p for p in pkgs if not _have(p)]
    if not missing:
        return DEPS
    with open(os.path.join(DEPS, '.lock'), 'w') as lock:
        fcntl.flock(lock, fcntl.LOCK_EX)
        missing = [p for p in pkgs if not _have(p)]
        if missing:
            env = dict(os.environ, PIP_NO_INDEX='1', PYTHONDONTWRITEBYTECODE='1')
            cmd = ['/venv/bin/python', '-m', 'pip', 'install', '--quiet', '--no-index',
                   '--disable-pip-version-check', '--no-warn-script-location',
                   '--find-links', WHEELS, '--target', DEPS, '--upgrade'] + missing
            r = subprocess.run(cmd, env=env, stdout=subprocess.PIPE, stderr=subprocess.STDOUT, text=True)
            if r.returncode != 0:
                sys.stderr.write(r.stdout)
                raise SystemExit(f'offline install of {missing} failed')
    return DEPS


if __name__ == '__main__':
    ensure()
    print('deps ok:', DEPS)
