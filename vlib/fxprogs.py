"""Random secure fixed-point programs with a *local* per-node oracle.

Every node of the DAG is opened; a node is judged against the operation applied to the values actually opened
for its operands (exact rationals in units of 2^-f), so rounding errors do not accumulate along a composition and
the property's per-operation bounds apply to every node of every composition.
spec = {'l','f','inputs': [[sender, float, integral_flag]], 'steps': [[op, [args], const]], 'sleepy', 'barrier_at'}
"""
import math
from fractions import Fraction as Fr

# op -> arity
OPS = {'add': 2, 'sub': 2, 'neg': 1, 'mul': 2, 'sq': 1, 'mul_int': 1, 'mul_float': 1, 'lt': 2, 'le': 2, 'eq': 2, 'ne': 2, 'ge': 2, 'gt': 2,
       'div': 2, 'recip': 1, 'div_pub': 1, 'pow': 1, 'sin': 1, 'cos': 1, 'trunc': 1, 'abs': 1, 'sgn': 1, 'min2': 2, 'max2': 2, 'ifelse': 3, 'ifelse_l': 3,
       'ifswap_l0': 3, 'ifswap_l1': 3, 'sum': 3, 'prod': 3, 'inprod': 4, 'scalar_mul': 3, 'schur': 4, 'vadd': 4, 'vsub': 4, 'matprod': 4, 'argmin_v': 3,
       'argmax_v': 3, 'minl': 3, 'maxl': 3, 'lshift': 1, 'mod_pub': 1, 'floordiv_pub': 1, 'addc': 1, 'rsubc': 1, 'sorted0': 3, 'add_int': 1, 'int_of': 1,
       'ifelse_c': 3, 'ifswap_c0': 3, 'ifswap_c1': 3, 'ifelse_cl': 3}
CHEAP = ['add', 'sub', 'neg', 'mul', 'sq', 'mul_int', 'mul_float', 'lt', 'eq', 'ge', 'ifelse', 'sum', 'inprod', 'scalar_mul', 'schur', 'vadd', 'abs', 'max2',
         'ifelse_l', 'ifswap_l0', 'ifswap_l1', 'addc', 'matprod', 'prod', 'argmin_v', 'lshift', 'add_int', 'ifelse_c', 'ifswap_c0', 'ifswap_c1', 'ifelse_cl', 'lt', 'ge']
ARITH = list(OPS)


def enc(x, f):
    """a float/Fraction as the library encodes it: round(x * 2^f) units"""
    return round(Fr(x) * (1 << f))


def ref_units(op, X, c, f):
    """exact value (Fraction, in units of 2^-f) of the operation on operand unit-values X; None if judged specially"""
    u = 1 << f
    if op == 'add': return Fr(X[0] + X[1])
    if op == 'sub': return Fr(X[0] - X[1])
    if op == 'neg': return Fr(-X[0])
    if op in ('mul',): return Fr(X[0] * X[1], u)
    if op == 'sq': return Fr(X[0] * X[0], u)
    if op == 'mul_int': return Fr(X[0] * c)
    if op == 'add_int': return Fr(X[0] + c * u)
    if op == 'mul_float': return Fr(X[0]) * Fr(c)          # exact product with the float as given
    if op == 'lt': return Fr(u * (X[0] < X[1]))
    if op == 'le': return Fr(u * (X[0] <= X[1]))
    if op == 'eq': return Fr(u * (X[0] == X[1]))
    if op == 'ne': return Fr(u * (X[0] != X[1]))
    if op == 'ge': return Fr(u * (X[0] >= X[1]))
    if op == 'gt': return Fr(u * (X[0] > X[1]))
    if op == 'div': return Fr(X[0] * u, X[1])
    if op == 'recip': return Fr(u * u, X[0])
    if op == 'div_pub': return Fr(X[0]) / Fr(c)
    if op == 'pow': return Fr(X[0] ** c, u ** (c - 1)) if c >= 1 else Fr(u)
    if op == 'sin': return None
    if op == 'cos': return None
    if op == 'trunc': return None
    if op == 'abs': return Fr(abs(X[0]))
    if op == 'sgn': return Fr(u * ((X[0] > 0) - (X[0] < 0)))
    if op == 'min2': return Fr(min(X[0], X[1]))
    if op == 'max2': return Fr(max(X[0], X[1]))
    if op == 'minl': return Fr(min(X))
    if op == 'maxl': return Fr(max(X))
    if op == 'ifelse': return Fr(X[1] if X[0] < X[2] else X[2])
    if op == 'ifelse_l': return Fr((X[1] if X[0] < X[2] else X[2]) + (X[0] if X[0] < X[2] else X[1]))
    if op == 'ifswap_l0': return Fr(X[2] if X[0] < X[1] else X[1])
    if op == 'ifswap_l1': return Fr(X[1] if X[0] < X[1] else X[2])
    if op == 'ifelse_c': return Fr(X[1] if X[0] else X[2])             # condition is an existing 0/1 node (reused elsewhere)
    if op == 'ifelse_cl': return Fr((X[1] if X[0] else X[2]) + (X[2] if X[0] else X[1]))
    if op == 'ifswap_c0': return Fr(X[2] if X[0] else X[1])
    if op == 'ifswap_c1': return Fr(X[1] if X[0] else X[2])
    if op == 'sum': return Fr(sum(X))
    if op == 'prod': return None                       # two roundings: judged with 2 + |x| units below
    if op == 'inprod': return Fr(X[0] * X[1] + X[2] * X[3], u)
    if op == 'scalar_mul': return Fr(X[0] * X[1], u) + Fr(X[0] * X[2], u)         # sum of the scaled vector
    if op == 'schur': return Fr(X[0] * X[2], u) + Fr(X[1] * X[3], u)
    if op == 'vadd': return Fr(X[0] + X[2]) * 1 + Fr(X[1] + X[3])
    if op == 'vsub': return Fr(X[0] - X[2]) + Fr(X[1] - X[3])
    if op == 'matprod': return Fr(X[0] * X[2] + X[1] * X[3], u) - Fr(X[0] * X[3] + X[1] * X[2], u)
    if op == 'argmin_v': return Fr(min(X))
    if op == 'argmax_v': return Fr(max(X))
    if op == 'sorted0': return Fr(min(X))
    if op == 'lshift': return Fr(X[0] * (1 << c))
    if op == 'mod_pub': return Fr(X[0] % enc(c, f))
    if op == 'floordiv_pub': return Fr(u * (X[0] // enc(c, f)))
    if op == 'addc': return Fr(X[0]) + enc(c, f)
    if op == 'rsubc': return enc(c, f) - Fr(X[0])
    if op == 'int_of': return None
    raise KeyError(op)


def tolerance(op, X, c, f):
    """the property's bound for this operation in units of 2^-f (Fraction); (tol, clause)"""
    u = 1 << f
    absx = Fr(abs(X[0]), u) if X else 0
    exact = ('add', 'sub', 'neg', 'lt', 'le', 'eq', 'ne', 'ge', 'gt', 'abs', 'sgn', 'min2', 'max2', 'minl', 'maxl', 'ifelse', 'ifelse_l', 'ifswap_l0', 'ifswap_l1',
             'sum', 'vadd', 'vsub', 'argmin_v', 'argmax_v', 'sorted0', 'lshift', 'mod_pub', 'addc', 'rsubc', 'mul_int', 'add_int', 'ifelse_c', 'ifelse_cl', 'ifswap_c0', 'ifswap_c1')
    if op in exact:
        return Fr(0), 'exact'
    if op in ('mul', 'sq'):
        return Fr(1), 'mul'
    if op == 'mul_float':
        return 2 * (1 + absx), 'mul_float'
    if op in ('div', 'recip'):
        x = Fr(X[0], u) if op == 'div' else Fr(1)
        return 16 * (1 + abs(x)), 'div'
    if op == 'div_pub':
        return 2 * (1 + absx) * max(1, abs(1 / Fr(c))) + 2, 'mul_float'     # x * (1/c) with 1/c a public float
    if op == 'pow':
        return Fr(max(1, c)) * (1 + absx) ** max(0, c - 1), 'pow'
    if op in ('sin', 'cos'):
        return Fr(4), 'sincos'
    if op in ('inprod', 'schur', 'scalar_mul'):
        return Fr(2), 'mul'                      # sums of products: one rounding per product (or one for the sum)
    if op == 'matprod':
        return Fr(2), 'mul'
    if op == 'prod':
        return None, 'mul'
    if op == 'floordiv_pub':
        return Fr(0), 'exact'
    return Fr(0), 'exact'


def gen(rng, m, l=16, f=8, n_steps=(3, 8), ops=CHEAP, n_inputs=(3, 5), features=True):
    lim = 1 << (l - 1)                      # |units| < lim
    u = 1 << f
    inputs = []
    n_in = rng.randint(*n_inputs)
    hi = lim // u
    for i in range(n_in):
        r = rng.random()
        if r < 0.12 and l - f >= 6:
            # magnitude near the square root of the range: products of two such values still fit
            big = 1 << ((l - f - 1) // 2)
            v = rng.choice([-1, 1]) * (big - rng.choice([0.5, 1, 1.25, 2]))
        elif r < 0.25:
            v = float(rng.randint(-min(hi - 1, 6), min(hi - 1, 6)))        # whole number
        elif r < 0.4:
            v = rng.choice([0.0, 1.0, -1.0, 0.5, -0.5, 1 / u, -1 / u, (lim - 1) / u / 4, 2.5, 0.3, 0.7, 1.5])
        else:
            v = rng.randint(-min(lim - 1, 6 * u), min(lim - 1, 6 * u)) / u
        integral = float(v).is_integer() and rng.random() < 0.8
        inputs.append([rng.randrange(m), v, integral])
    vals = [enc(v, f) for _, v, _ in inputs]
    steps = []
    tries = 0
    target = rng.randint(*n_steps)
    while len(steps) < target and tries < 500:
        tries += 1
        op = rng.choice(ops)
        args = [rng.randrange(len(vals)) for _ in range(OPS[op])]
        X = [vals[i] for i in args]
        c = None
        if op == 'mul_int' or op == 'add_int':
            c = rng.choice([0, 1, -1, 2, 3, -5])
        elif op == 'mul_float':
            c = rng.choice([0.5, 1.5, -0.25, 0.3, 2.0, -1.1, 1 / 3, 0.1])
        elif op == 'div_pub':
            c = rng.choice([2, 4, 0.5, 3, -2.5, 1.5])
        elif op == 'pow':
            c = rng.choice([0, 1, 2, 3])
        elif op == 'lshift':
            c = rng.choice([0, 1, 2, f])
        elif op in ('mod_pub', 'floordiv_pub'):
            c = rng.choice([1, 2, 3, 0.5, 1.5])
        elif op in ('addc', 'rsubc'):
            c = rng.choice([0, 1, -2, 0.5, -1.25, 0.3])
        elif op == 'trunc':
            c = rng.choice([1, 2, f // 2, f])
        if op in ('div', 'recip'):
            d = X[1] if op == 'div' else X[0]
            if abs(d) < 1:
                continue
        if op in ('ifelse_c', 'ifelse_cl', 'ifswap_c0', 'ifswap_c1'):
            # the condition must be a 0/1-valued node produced by a comparison
            k0 = args[0] - len(inputs)
            if k0 < 0 or steps[k0][0] not in ('lt', 'le', 'eq', 'ne', 'ge', 'gt'):
                cands = [len(inputs) + j for j, st in enumerate(steps) if st[0] in ('lt', 'le', 'eq', 'ne', 'ge', 'gt')]
                if not cands:
                    continue
                args[0] = rng.choice(cands)
                X[0] = vals[args[0]]
        if op in ('sin', 'cos') and abs(X[0]) > 8 * u:
            continue
        if op == 'int_of' and False:
            continue
        e = ref_units(op, X, c, f)
        inter = []
        if e is not None:
            inter.append(e)
        if op in ('mul', 'sq', 'inprod', 'schur', 'scalar_mul', 'matprod', 'prod'):
            prods = [Fr(a * b, u) for a in X for b in X]
            inter += prods
            if op == 'prod':
                inter.append(Fr(X[0] * X[1] * X[2], u * u))
        if op == 'pow':
            inter += [Fr(X[0] ** k, u ** (k - 1)) for k in range(1, c + 1)]
        if op in ('sub', 'lt', 'le', 'eq', 'ne', 'ge', 'gt', 'min2', 'max2', 'minl', 'maxl', 'ifelse', 'ifelse_l', 'ifswap_l0', 'ifswap_l1', 'argmin_v', 'argmax_v', 'sorted0'):
            inter += [Fr(a - b) for a in X for b in X]
        if op in ('div', 'recip'):
            inter.append(Fr(u * u, X[1] if op == 'div' else X[0]))
        if op in ('sum', 'vadd', 'vsub'):
            inter += [Fr(X[0] + X[1]), Fr(sum(X))]
        if op in ('abs', 'sgn', 'neg'):
            inter.append(Fr(-X[0]))
        if op == 'trunc':
            inter.append(Fr(X[0]))
        if not all(abs(x) < lim - 2 for x in inter):
            continue
        steps.append([op, args, c])
        # generator's own estimate of the node value (rounded) to continue building; the oracle uses opened values
        if e is None:
            if op == 'sin': e = Fr(round(math.sin(X[0] / u) * u))
            elif op == 'cos': e = Fr(round(math.cos(X[0] / u) * u))
            elif op == 'trunc': e = Fr(X[0] // (1 << c))
            elif op == 'prod': e = Fr(X[0] * X[1] * X[2], u * u)
            elif op == 'int_of': e = Fr(X[0])
        vals.append(int(round(e)))
    spec = {'l': l, 'f': f, 'inputs': inputs, 'steps': steps, 'sleepy': None, 'barrier_at': None}
    if features:
        spec['barrier_at'] = rng.choice([None, None, rng.randint(0, max(0, len(steps)))])
        spec['yield_at'] = {str(rng.randrange(max(1, len(steps)))): rng.randint(1, 4) for _ in range(rng.choice([0, 1, 1, 2]))}
    return spec


def apply_op(mpc, secfxp, op, x, c):
    f = secfxp.frac_length
    if op == 'add': return x[0] + x[1]
    if op == 'sub': return x[0] - x[1]
    if op == 'neg': return -x[0]
    if op == 'mul': return x[0] * x[1]
    if op == 'sq': return x[0] * x[0]
    if op == 'mul_int': return x[0] * c
    if op == 'add_int': return c + x[0]
    if op == 'mul_float': return c * x[0]
    if op == 'lt': return x[0] < x[1]
    if op == 'le': return x[0] <= x[1]
    if op == 'eq': return x[0] == x[1]
    if op == 'ne': return x[0] != x[1]
    if op == 'ge': return x[0] >= x[1]
    if op == 'gt': return x[0] > x[1]
    if op == 'div': return x[0] / x[1]
    if op == 'recip': return 1 / x[0]
    if op == 'div_pub': return x[0] / c
    if op == 'pow': return x[0] ** c
    if op == 'sin': return mpc.sin(x[0])
    if op == 'cos': return mpc.cos(x[0])
    if op == 'trunc':
        if c % 2:
            return mpc.trunc(x[0], f=c)
        lst = [x[0], x[0] + 1]               # list form; the caller goes on using its list right after the call
        r = mpc.trunc(lst, f=c)
        lst.reverse()
        return r[0]
    if op == 'abs': return abs(x[0])
    if op == 'sgn': return mpc.sgn(x[0])
    if op == 'min2': return mpc.min(x[0], x[1])
    if op == 'max2': return mpc.max(x[0], x[1])
    if op == 'minl': return mpc.min(list(x))
    if op == 'maxl': return mpc.max(list(x))
    if op == 'ifelse': return mpc.if_else(x[0] < x[2], x[1], x[2])
    if op == 'ifelse_l':
        r = mpc.if_else(x[0] < x[2], [x[1], x[0]], [x[2], x[1]])
        return r[0] + r[1]
    if op == 'ifswap_l0': return mpc.if_swap(x[0] < x[1], [x[1], x[0]], [x[2], x[0]])[0][0]
    if op == 'ifswap_l1': return mpc.if_swap(x[0] < x[1], [x[1], x[0]], [x[2], x[0]])[1][0]
    if op == 'ifelse_c': return mpc.if_else(x[0], x[1], x[2])
    if op == 'ifelse_cl':
        r = mpc.if_else(x[0], [x[1], x[2]], [x[2], x[1]])
        return r[0] + r[1]
    if op == 'ifswap_c0': return mpc.if_swap(x[0], [x[1], x[2]], [x[2], x[1]])[0][0]
    if op == 'ifswap_c1': return mpc.if_swap(x[0], x[1], x[2])[1]
    if op == 'sum':
        a = [x[0], x[1]]
        r = mpc.sum(a, start=x[2])             # the start value is part of the sum (also for its integrality)
        _spoil(a, x[2])
        return r
    if op == 'prod': return mpc.prod(list(x))
    if op == 'inprod':
        a, b = [x[0], x[2]], [x[1], x[3]]
        r = mpc.in_prod(a, b)
        _spoil(a, x[1]); _spoil(b, x[0])
        return r
    if op == 'scalar_mul':
        a = [x[1], x[2]]
        r = mpc.scalar_mul(x[0], a)
        _spoil(a, x[0])
        return r[0] + r[1]
    if op == 'schur':
        a, b = [x[0], x[1]], [x[2], x[3]]
        r = mpc.schur_prod(a, b)
        _spoil(a, x[3]); _spoil(b, x[0])
        return r[0] + r[1]
    if op == 'vadd':
        a, b = [x[0], x[1]], [x[2], x[3]]
        r = mpc.vector_add(a, b)
        _spoil(a, x[3]); _spoil(b, x[0])
        return r[0] + r[1]
    if op == 'vsub':
        a, b = [x[0], x[1]], [x[2], x[3]]
        r = mpc.vector_sub(a, b)
        _spoil(a, x[3]); _spoil(b, x[0])
        return r[0] + r[1]
    if op == 'matprod':
        A, B = [[x[0], x[1]]], [[x[2], x[3]], [x[3], x[2]]]
        r = mpc.matrix_prod(A, B)
        _spoil(A, x[3]); _spoil(B, x[1])          # the caller overwrites entries inside the rows of its matrices right after the call
        return r[0][0] - r[0][1]
    if op == 'argmin_v': return mpc.argmin(list(x))[1]
    if op == 'argmax_v': return mpc.argmax(list(x))[1]
    if op == 'sorted0': return mpc.sorted(list(x))[0]
    if op == 'lshift': return x[0] << c
    if op == 'mod_pub': return x[0] % c
    if op == 'floordiv_pub': return x[0] // c
    if op == 'addc': return x[0] + c
    if op == 'rsubc': return c - x[0]
    if op == 'int_of': return x[0]
    raise KeyError(op)


def _spoil(L, v):
    """the caller goes on using its own lists: every entry (also inside rows) is overwritten in place right after a call"""
    for i in range(len(L)):
        if isinstance(L[i], list):
            _spoil(L[i], v)
        else:
            L[i] = v


def build(spec, on_node=None, open_all=True):
    """program(mpc, pid) -> list of (opened value in units, integral flag) per node"""
    import asyncio

    async def program(mpc, pid):
        secfxp = mpc.SecFxp(spec['l'], spec['f'])
        f = spec['f']
        nodes = []
        for sender, v, integral in spec['inputs']:
            # the integrality flag is public knowledge of the program: the same at every party
            nodes.append(mpc.input(secfxp(v if pid == sender else 0.0, integral=integral), senders=sender))
        for k, (op, args, c) in enumerate(spec['steps']):
            if spec.get('barrier_at') == k:
                await mpc.barrier()
            if spec.get('sleepy') == pid and k == 1:
                await asyncio.sleep(0)
            for _ in range((spec.get('yield_at') or {}).get(str(k), 0)):
                await asyncio.sleep(0)           # every party yields to its event loop here (symmetric): e.g. local async I/O
            r = apply_op(mpc, secfxp, op, [nodes[i] for i in args], c)
            nodes.append(r)
            if on_node is not None:
                on_node(len(nodes) - 1, r)
        flags = [getattr(n, 'integral', None) for n in nodes]
        if not open_all:
            outs = await mpc.output(nodes[-3:])
            return [outs, flags]
        raw = await mpc.output(nodes, raw=True)
        units = []
        for a in raw:
            units.append(int(a))                     # signed representative, in units of 2^-f
        return [units, flags]
    return program


def judge(spec, units, flags, on_violation, count=None):
    """local oracle over all nodes.  on_violation(node index, op, clause, text, extra features)"""
    f, l = spec['f'], spec['l']
    u = 1 << f
    n_in = len(spec['inputs'])
    for i, (sender, v, integral) in enumerate(spec['inputs']):
        if units[i] != enc(v, f):
            on_violation(i, 'input', 'exact', f'input {v} opens to {units[i]} units, encoding is {enc(v, f)}', {})
    for k, (op, args, c) in enumerate(spec['steps']):
        idx = n_in + k
        X = [units[i] for i in args]
        got = units[idx]
        if any(abs(x) >= (1 << (l - 1)) for x in X):
            continue            # operand outside the l-bit range (consequence of an earlier, already reported node): out of the property's domain
        if op in ('div', 'recip') and (X[1] if op == 'div' else X[0]) == 0:
            continue            # |y| >= 2^-f is the property's own side condition
        if count is not None:
            count(op)
        e = ref_units(op, X, c, f)
        tol, clause = tolerance(op, X, c, f)
        extra = {}
        if op in ('sin', 'cos'):
            x = X[0] / u
            e = Fr((math.sin if op == 'sin' else math.cos)(x)) * u
            tol = Fr(4) + Fr(1, 1000)
        elif op == 'trunc':
            q = Fr(X[0], 1 << c)
            lo, hi = math.floor(q), math.ceil(q)
            if got not in (lo, hi):
                on_violation(idx, op, 'trunc', f'trunc({X[0]} units, f={c}) = {got}, exact quotient {float(q)} allows {lo} or {hi}', {})
            continue
        elif op == 'prod':
            e = Fr(X[0] * X[1] * X[2], u * u)
            tol = 2 + max(abs(Fr(x, u)) for x in X) + 1
        elif op == 'int_of':
            continue
        elif op == 'mul_float':
            # the statement's bound is relative to the exact product with the float
            pass
        if op in ('div', 'recip'):
            den = X[1] if op == 'div' else X[0]
            exact_q = e
            rel = abs(Fr(got) - exact_q) / max(abs(exact_q), Fr(1, 10**9))
            extra = {'shape_l_gt_2f_plus_1': l > 2 * f + 1, 'result_zero': got == 0, 'rel_err_le_4ulp': rel <= Fr(4, u), 'abs_y_units': min(abs(den), 99),
                     'small_divisor': abs(den) < u // 4}
        if abs(Fr(got) - e) > tol:
            on_violation(idx, op, clause, f'{op}{tuple(X)}{" const " + str(c) if c is not None else ""} = {got} units, exact {float(e):.3f}, allowed deviation {float(tol):.2f} units (l={l}, f={f})', extra)
    # integrality flags (C03): a node marked integral must be a whole number
    for idx, fl in enumerate(flags):
        if fl is True and units[idx] % u != 0:
            op = spec['steps'][idx - n_in][0] if idx >= n_in else 'input'
            on_violation(idx, op, 'integral-flag', f'node {idx} ({op}) is marked integral but its value is {units[idx]}/{u}', {})
