"""Engine SIM: m real mpyc Runtimes in one process, deterministic scheduler, virtual byte-stream network.

Nothing of mpyc is re-implemented: Runtime, MessageExchanger, mpc_coro, _ProgramCounterWrapper, start()
and shutdown() are the real ones.  Replaced: the socket (in-memory FIFO per directed connection), the
event loop (PartyLoop below, driven by the World scheduler), `secrets` (seeded per-party stream).
Call install() once per process after vlib.env.prepare().
"""
import sys
import asyncio
import contextvars
import random
import heapq
import collections
import struct
import itertools
import hashlib
from asyncio import events

CUR = contextvars.ContextVar('verif_cur_rt')
_W = None                # the World being simulated (monitors log into it)
NS = None                # namespace set by install()


class Proxy:
    """What the eight mpyc modules see as `runtime`: forwards to the current party's Runtime."""
    def __getattr__(self, n):
        return getattr(CUR.get(), n)

    def __setattr__(self, n, v):
        setattr(CUR.get(), n, v)

    async def __aenter__(self):                 # `async with mpc:` looks dunder methods up on the type
        return await CUR.get().__aenter__()

    async def __aexit__(self, et, ev, tb):
        return await CUR.get().__aexit__(et, ev, tb)


class Shim:
    """Seeded per-party replacement for the `secrets` module inside mpyc.runtime / mpyc.thresha."""
    def __init__(self):
        self.rngs = {}
        self.seed = 0
        self.draws = 0
        self.log = None          # optional list receiving (pid, kind, arg, value)

    def _r(self):
        try:
            pid = CUR.get().pid
        except (LookupError, AttributeError):
            pid = -1
        r = self.rngs.get(pid)
        if r is None:
            r = self.rngs[pid] = random.Random(f'{self.seed}/{pid}')
        return r, pid

    def randbelow(self, n):
        r, pid = self._r()
        v = r.randrange(n)
        self.draws += 1
        if self.log is not None:
            self.log.append((pid, 'randbelow', n, v))
        return v

    def randbits(self, k):
        r, pid = self._r()
        v = r.getrandbits(k)
        self.draws += 1
        if self.log is not None:
            self.log.append((pid, 'randbits', k, v))
        return v

    def token_bytes(self, n=32):
        r, pid = self._r()
        self.draws += 1
        return r.randbytes(n)

    def choice(self, seq):
        r, pid = self._r()
        return r.choice(seq)

    def reseed(self, seed):
        self.seed = seed
        self.rngs = {}


class Namespace:
    pass


def install():
    """Import mpyc (already prepared by vlib.env), point module globals at the proxy, install monitors."""
    global NS
    if NS is not None:
        return NS
    import mpyc
    from mpyc import runtime as rtmod, asyncoro, sectypes, thresha
    import mpyc.mpctools, mpyc.seclists, mpyc.secgroups, mpyc.random, mpyc.statistics, mpyc.secpols
    ns = NS = Namespace()
    ns.mpyc, ns.rtmod, ns.asyncoro, ns.sectypes, ns.thresha = mpyc, rtmod, asyncoro, sectypes, thresha
    ns.default_rt = rtmod.mpc
    ns.proxy = Proxy()
    CUR.set(ns.default_rt)
    ns.modules = (sectypes, asyncoro, mpyc.mpctools, mpyc.seclists, mpyc.secpols, mpyc.secgroups,
                  mpyc.random, mpyc.statistics)
    for mod in ns.modules:
        assert hasattr(mod, 'runtime'), f'{mod.__name__}.runtime missing'
        mod.runtime = ns.proxy
    ns.shim = Shim()
    assert hasattr(rtmod, 'secrets') and hasattr(thresha, 'secrets')
    rtmod.secrets = ns.shim
    thresha.secrets = ns.shim
    if hasattr(mpyc.secgroups, 'secrets'):
        mpyc.secgroups.secrets = ns.shim
    # ---- M-WIRE receive monitor ----------------------------------------------------------
    MX = asyncoro.MessageExchanger
    ns.orig_receive = MX.receive

    def receive(self, pc):
        w = _W
        early = pc in self.buffers and not isinstance(self.buffers[pc], asyncio.Future)
        r = ns.orig_receive(self, pc)
        if w is not None:
            w._on_receive(self, pc, r, early)
        return r
    MX.receive = receive
    # ---- M-TASK: every MPyC task (asyncoro.Task is looked up at call time in typed_asyncoro) --
    ns.orig_Task = asyncoro.Task

    class MTask(ns.orig_Task):
        def __init__(self, coro, *, loop=None, **kw):
            super().__init__(coro, loop=loop, **kw)
            w = _W
            if w is not None:
                w._on_task(self)
    asyncoro.Task = MTask
    ns.MTask = MTask
    # ---- M-PC: every fork of the program counter (the class name is looked up at call time in typed_asyncoro) --
    ns.orig_PCW = asyncoro._ProgramCounterWrapper

    class MPCW(ns.orig_PCW):
        __slots__ = ()

        def __init__(self, rt, coro):
            parent_depth = rt._program_counter[1]
            super().__init__(rt, coro)
            w = _W
            if w is not None:
                w._on_fork(rt, parent_depth, coro)
    asyncoro._ProgramCounterWrapper = MPCW
    return ns


async def _warmup(mpc, pid):
    """generic earlier-session program: fills per-runtime and module-level caches (PRSS subsets and PRFs for several bounds, recombination vectors,
    resharing) with entries for the earlier threshold.  Uses only types whose construction does not depend on the threshold."""
    secint = mpc.SecInt(32)
    secfld = mpc.SecFld(2 ** 61 - 1)
    m = len(mpc.parties)
    xs = mpc.input(secint(pid + 2))
    y = xs[0] * xs[(1) % m] + xs[m - 1]
    b = mpc.random_bits(secint, 2)
    z = (xs[0] < xs[m - 1]) + b[0] * b[1]
    for T in (mpc.SecInt(8), mpc.SecInt(16), mpc.SecFxp(16, 8), mpc.SecFld(101), mpc.SecFld(257)):   # the bounds / fields most programs of the checks use
        u = mpc.input(T(pid + 1), senders=0)
        v = u * u
        if not issubclass(T, mpc.SecureFiniteField):
            v = v + (u < 3)
        mpc.random_bits(T, 1)
        await mpc.output(v)
    fs = mpc.input(secfld(pid + 3))
    w = fs[0] * fs[m - 1]
    out = await mpc.output([y, z])
    out2 = await mpc.output(w)
    assert out[0] == 2 * (3 if m > 1 else 2) + (m + 1), out
    assert int(out2) == 3 * (m + 2), out2


def clear_type_caches():
    st = NS.sectypes
    for name in ('_SecFld', '_SecInt', '_SecFxp', '_SecFlt'):
        f = getattr(st, name, None)
        if f is not None and hasattr(f, 'cache_clear'):
            f.cache_clear()
    sg = sys.modules.get('mpyc.secgroups')
    if sg is not None and hasattr(sg.SecGrp, 'cache_clear'):
        sg.SecGrp.cache_clear()         # secure group types hold a sectype (possibly lifted for this m) and an identity built under one runtime


# ------------------------------------------------------------------------------------------
class PartyLoop(asyncio.AbstractEventLoop):
    """Minimal event loop accepted by asyncio's C Future/Task; one per party; iterated by the World."""

    def __init__(self, world, pid):
        self.world, self.pid = world, pid
        self.ready = collections.deque()
        self.timers = []
        self._seq = 0
        self.stopped = False
        self._exc_handler = None
        self.errors = []

    def get_debug(self):
        return False

    def is_running(self):
        return True

    def is_closed(self):
        return False

    def time(self):
        return self.world.now

    def call_soon(self, cb, *args, context=None):
        h = asyncio.Handle(cb, args, self, context)
        self.ready.append(h)
        return h
    call_soon_threadsafe = call_soon

    def call_at(self, when, cb, *args, context=None):
        h = asyncio.TimerHandle(when, cb, args, self, context)
        self._seq += 1
        heapq.heappush(self.timers, (when, self._seq, h))
        return h

    def call_later(self, delay, cb, *args, context=None):
        return self.call_at(self.world.now + delay, cb, *args, context=context)

    def _timer_handle_cancelled(self, h):
        pass

    def create_future(self):
        return asyncio.Future(loop=self)

    def create_task(self, coro, *, name=None, context=None):
        return asyncio.Task(coro, loop=self, name=name, context=context)

    def stop(self):
        self.stopped = True
        self.world.stop_events.append(self.pid)

    def set_exception_handler(self, h):
        self._exc_handler = h

    def get_exception_handler(self):
        return self._exc_handler

    def default_exception_handler(self, context):
        self.errors.append(context)

    def call_exception_handler(self, context):
        # mirror BaseEventLoop: custom handler first (mpyc installs asyncoro.exception_handler)
        if self._exc_handler is not None:
            try:
                self._exc_handler(self, context)
                return
            except BaseException as e:
                self.errors.append({'message': 'exception in exception handler', 'exception': e})
                return
        self.errors.append(context)

    # virtual network endpoints: the REAL Runtime.start() runs against these
    async def create_server(self, factory, host=None, port=None, ssl=None, **kw):
        self.world.listening[port] = (self.pid, factory)
        return _Server(self.world, port)

    async def create_connection(self, factory, host=None, port=None, ssl=None, server_hostname=None, **kw):
        w = self.world
        if port not in w.listening or w.listening[port][0] in w.crashed or (w.refuse_prob and w.rng.random() < w.refuse_prob):
            raise ConnectionRefusedError(port)
        spid, sfactory = w.listening[port]
        i, j = self.pid, spid
        cij, cji = Conn(i, j), Conn(j, i)
        w.conns[i, j], w.conns[j, i] = cij, cji
        pc = factory()                              # client protocol (we are in the client's context)
        ps = w.ctx[j].run(sfactory)                 # server protocol, created in the server's context
        cij.proto, cji.proto = ps, pc               # bytes i->j are fed to the protocol object living at j
        w.ctx[j].run(ps.connection_made, VTransport(cji, cij, w))
        pc.connection_made(VTransport(cij, cji, w))
        return None, pc

    def iteration(self, arrivals):
        """One pass of BaseEventLoop._run_once: due timers, arrived I/O, then exactly the handles ready now."""
        while self.timers and self.timers[0][0] <= self.world.now:
            _, _, h = heapq.heappop(self.timers)
            if not h._cancelled:
                self.ready.append(h)
        for cb in arrivals:
            self.ready.append(asyncio.Handle(cb, (), self, None))
        n = len(self.ready)
        events._set_running_loop(self)
        try:
            for _ in range(n):
                if not self.ready or self.stopped:
                    break
                h = self.ready.popleft()
                if not h._cancelled:
                    try:
                        h._run()           # Handle._run reports exceptions via call_exception_handler
                    except CpuBudget:
                        raise
                    except BaseException as e:
                        self.errors.append({'message': 'escaped handle', 'exception': e})
        finally:
            events._set_running_loop(None)
        return n


class CpuBudget(KeyboardInterrupt):
    """raised by the CPU-time alarm of World.run(cpu_seconds=...); a KeyboardInterrupt subclass, so that asyncio's handles and tasks let it through"""


class _Server:
    def __init__(self, world, port):
        self.world, self.port = world, port

    def close(self):
        self.world.listening.pop(self.port, None)


class Conn:
    """Directed byte stream src -> dst."""
    __slots__ = ('src', 'dst', 'buf', 'proto', 'closed', 'lost', 'log', 'delivered', 'chunks', 'reset', 'refs')

    def __init__(self, src, dst):
        self.src, self.dst = src, dst
        self.buf = bytearray()     # written, not yet delivered
        self.proto = None          # protocol object at dst that consumes this stream
        self.closed = False        # stream end signalled by src side (or transport closed)
        self.lost = False          # connection_lost delivered at dst
        self.log = bytearray()     # everything ever written (M-WIRE)
        self.delivered = 0
        self.chunks = 0
        self.reset = False         # stream end is an error (ConnectionResetError) instead of EOF
        self.refs = []             # (absolute stream offset, mutable object written): read again when its bytes leave (socket transports do not copy)


class VTransport:
    def __init__(self, conn, rev, world):
        self.conn, self.rev, self.world = conn, rev, world

    def write(self, data):
        obj = data
        data = bytes(data)
        w, c = self.world, self.conn
        if c.closed and c.src not in w.crashed:
            w.writes_after_close.append((c.src, c.dst, len(data)))
        if c.src in w.crashed or c.closed:
            return
        if not isinstance(obj, bytes) and w.crash_at is None:
            # asyncio's socket transports keep a written bytearray/memoryview by reference while the socket is not writable (no copy since 3.12):
            # what leaves is the object's content at that later time
            c.refs.append((len(c.log), obj))
        w.write_log[c.src].append((w.sent[c.src], len(data), c.dst))
        if w.crash_at is not None and c.src == w.crash_at[0]:
            room = w.crash_at[1] - w.sent[c.src]
            if len(data) >= room:
                data = data[:max(room, 0)]
                c.buf += data
                c.log += data
                w.sent[c.src] += len(data)
                w.progress += 1
                w.crash(c.src)
                return
        c.buf += data
        c.log += data
        w.sent[c.src] += len(data)
        w.progress += 1

    def writelines(self, lines):
        self.write(b''.join(lines))

    def close(self):
        w = self.world
        w._on_close(self.conn.src, self.conn.dst)
        self.conn.closed = True
        self.rev.closed = True

    def is_closing(self):
        return self.conn.closed

    def get_extra_info(self, name, default=None):
        return default


POLICIES = ('uniform', 'eager', 'lazy', 'starve', 'dribble', 'reverse', 'pct')


class World:
    """m parties, one deterministic scheduler.  status in {DONE, DEADLOCK, STUCK, STEP-LIMIT}."""

    def __init__(self, m, t, no_prss=False, seed=0, policy='uniform', sec_param=30, no_barrier=False,
                 crash_at=None, crash_mode='eof', refuse_prob=0.2, base_port=11000, clear_caches=True,
                 record_sched=False, history=None, on_observed=None, drain_after=False):
        """history: how the runtimes arrive at threshold t (None: constructed with it, as with -T t).
             ('assign', t0): constructed with threshold t0, then `mpc.threshold = t` before start() (as demos/parallelsort.py does);
             ('session', t0): a complete earlier session (start, warm-up program, shutdown) at threshold t0 on the same Runtime objects,
                              then `mpc.threshold = t` and the session that is observed;
             ('restart', t): a complete earlier session at the same threshold, then start() again without touching the threshold (a program that
                              runs two sessions in one process);
             'auto': one of the above (or none) chosen pseudo-randomly from the seed.
           The monitors only ever see the observed session."""
        global _W
        ns = install()
        self.ns = ns
        self.m, self.t, self.no_prss = m, t, no_prss
        if history == 'auto':
            hr = random.Random(f'history/{seed}/{m}/{t}')
            others = [x for x in range(0, (m + 1) // 2) if 2 * x < m and x != t]
            r = hr.random()
            if crash_at is not None or m == 1:
                history = None
            elif r < 0.15 and others:
                history = ('assign', hr.choice(others))
            elif r < 0.35:
                history = ('session', hr.choice(others + [x for x in others if x > t] * 3 + [t]))       # an earlier session at a higher threshold is the interesting direction
            elif r < 0.42:
                history = ('restart', t)
            else:
                history = None
        self.drain_after = drain_after       # after every party has returned: let what is still runnable run (work that outlived shutdown() shows on the wire)
        self.writes_after_close = []
        self.history = history
        self.on_observed = on_observed       # callable run when the observed session begins (monitors of a check forget the earlier session)
        self.t_main = t
        if history is not None:
            self.t = history[1]                   # until the observed session begins
        self._arrived = 0
        self.conn_epoch = 0
        self.now = 0.0
        self.seed = seed
        self.rng = random.Random(f'sched/{seed}/{policy}')
        self.policy = policy
        self.refuse_prob = refuse_prob
        self.loops = [PartyLoop(self, i) for i in range(m)]
        self.conns = {}
        self.listening = {}
        self.steps = 0
        self.ctx = {}
        self.rts = []
        self.crash_at, self.crash_mode = crash_at, crash_mode
        self.crashed = set()
        self.sent = collections.Counter()
        self.close_events = []       # (src, dst, pending MPyC tasks at src at that instant)
        self.stop_events = []
        self.progress = 0
        self.recv_log = []           # (pid, peer, label, early)
        self.recv_payload = {}       # (pid, peer, label) -> list of payloads handed over
        self.tasks_created = collections.Counter()
        self.pending_tasks = [set() for _ in range(m)]
        self.sched_hash = hashlib.blake2b(digest_size=8)
        self.forks = 0
        self.write_log = collections.defaultdict(list)   # per source: (offset in its total outgoing stream, length, dst)
        self.deferred_bumps = set()
        self.tasks = None
        self.sched_log = [] if record_sched else None
        self.status = None
        if _W is not None:
            _W.dispose()
        if clear_caches:
            clear_type_caches()
        ns.shim.reseed(seed)
        _W = self
        parser = ns.mpyc._get_arg_parser()
        for i in range(m):
            options, _ = parser.parse_known_args([])
            options.threshold = self.t
            options.no_prss = no_prss
            options.no_async = False
            options.no_barrier = no_barrier
            options.sec_param = sec_param
            options.ssl = False
            options.no_log = True
            c = contextvars.copy_context()
            self.ctx[i] = c

            def mk(i=i, options=options):
                rtmod = ns.rtmod
                rt = rtmod.Runtime.__new__(rtmod.Runtime)
                CUR.set(rt)
                rt.pid = i                           # so that the shim finds the party during __init__
                asyncio.set_event_loop(self.loops[i]) if False else None
                rt.__init__(i, [rtmod.Party(j, 'localhost', base_port + j) for j in range(m)], options)
                rt._loop = self.loops[i]
                self.loops[i].set_exception_handler(ns.asyncoro.exception_handler)
                return rt
            self.rts.append(c.run(mk))

    def dispose(self):
        """Close every still-suspended coroutine of this (finished or abandoned) world *in its own party context*.
        Otherwise a later garbage collection would run their `finally:` clauses (which restore
        `runtime._program_counter` through the proxy) in whatever context is current then, i.e. against a party
        of the next world - a harness artefact that production (one process per party) cannot have."""
        if getattr(self, '_disposed', False):
            return
        self._disposed = True
        for pid in range(self.m):
            tasks = list(self.pending_tasks[pid])
            if self.tasks is not None and pid < len(self.tasks):
                tasks.append(self.tasks[pid])

            def close_all(tasks=tasks):
                for tk in tasks:
                    try:
                        if not tk.done():
                            tk.get_coro().close()
                    except BaseException:
                        pass
            try:
                self.ctx[pid].run(close_all)
            except BaseException:
                pass
            L = self.loops[pid]
            L.ready.clear()
            L.timers.clear()
            L.stopped = True

    # ---- monitors' sinks -------------------------------------------------------------------
    def _on_receive(self, proto, pc, result, early):
        pid, peer = proto.runtime.pid, proto.peer_pid
        self.recv_log.append((pid, peer, pc, early))
        key = (pid, peer, pc)
        lst = self.recv_payload.setdefault(key, [])
        if isinstance(result, asyncio.Future):
            result.add_done_callback(lambda f: lst.append(f.result()) if not f.cancelled() and f.exception() is None else None)
        else:
            lst.append(result)

    def _on_task(self, task):
        try:
            pid = CUR.get().pid
        except Exception:
            return
        self.tasks_created[pid] += 1
        s = self.pending_tasks[pid]
        s.add(task)

        def done(tk):
            s.discard(tk)
            self.progress += 1
        task.add_done_callback(done)

    def _on_fork(self, rt, parent_depth, coro):
        """a pc fork; 'deferred' = the top-level counter is bumped from inside a task other than the party's main task"""
        self.forks += 1
        if parent_depth == 0 and self.tasks is not None:
            try:
                cur = asyncio.current_task(loop=rt._loop)
            except RuntimeError:
                cur = None
            if cur is not None and cur is not self.tasks[rt.pid]:
                try:
                    enclosing = cur.get_coro().__qualname__
                except Exception:
                    enclosing = '?'
                self.deferred_bumps.add((enclosing, getattr(coro, '__qualname__', '?')))

    def _on_close(self, src, dst):
        self.close_events.append((src, dst, len(self.pending_tasks[src])))

    # ---- faults ----------------------------------------------------------------------------
    def crash(self, pid):
        self.crashed.add(pid)
        L = self.loops[pid]
        L.stopped = True
        L.ready.clear()
        L.timers.clear()
        for (s, d), c in self.conns.items():
            if s == pid:
                if self.crash_mode == 'eof':
                    c.closed = True
                elif self.crash_mode == 'reset':
                    c.closed = True
                    c.reset = True
                # 'silent': stream simply stops
            if d == pid:
                c.buf.clear()
                c.lost = True

    # ---- running ---------------------------------------------------------------------------
    def run(self, program, max_steps=3_000_000, wrap=True, stuck_after=200_000, extend=None, cpu_seconds=None):
        """program: async def program(mpc, pid).  wrap=True: real start() before, real shutdown() after.
        extend: when the step budget is exhausted under a biased policy, continue the *same* world under the plain uniform policy with ten times the
        budget before giving the status STEP-LIMIT (a schedule that changes policy is still a fair schedule; byte-dribbling schedules legitimately need
        orders of magnitude more steps).  Default: on, unless the caller passes an explicit max_steps (those callers run their own budget logic)."""
        self._extend = (max_steps == 3_000_000) if extend is None else extend
        ns = self.ns

        async def main(pid):
            mpc = ns.proxy
            h = self.history
            if h is not None and wrap:
                if h[0] in ('session', 'restart'):
                    await mpc.start()
                    await _warmup(mpc, pid)
                    await mpc.shutdown()
                self._arrived += 1
                if self._arrived == self.m:
                    self._begin_observed_session()       # the last party to get here resets the monitors
                while self._arrived < self.m:
                    await asyncio.sleep(0)               # harness-level rendezvous between the sessions
                if h[0] != 'restart':
                    mpc.threshold = self.t_main
            if wrap:
                await mpc.start()
                r = await program(mpc, pid)
                await mpc.shutdown()
                return r
            return await program(mpc, pid)
        self.tasks = [self.ctx[i].run(lambda i=i: self.loops[i].create_task(main(i))) for i in range(self.m)]
        if cpu_seconds is None:
            self._drive(max_steps, stuck_after)
            return self
        # CPU budget (process CPU time, so machine load does not matter): for workloads whose worlds take well under a second on the unchanged tree, a world
        # that burns cpu_seconds (a livelock exchanging messages forever, 2**garbage, ...) ends with status CPU-LIMIT, like STEP-LIMIT a "did not complete"
        import signal
        _CpuBudget = CpuBudget

        def _alarm(signum, frame):
            raise _CpuBudget()
        old_h = signal.signal(signal.SIGVTALRM, _alarm)
        signal.setitimer(signal.ITIMER_VIRTUAL, cpu_seconds)
        try:
            self._drive(max_steps, stuck_after)
        except _CpuBudget:
            self.status = 'CPU-LIMIT'
        finally:
            signal.setitimer(signal.ITIMER_VIRTUAL, 0)
            signal.signal(signal.SIGVTALRM, old_h)
        return self

    def _begin_observed_session(self):
        """forget what the monitors recorded during the earlier session; from here on the world looks like a fresh one at threshold t_main"""
        self.t = self.t_main
        self.conns = {}
        self.conn_epoch += 1
        self.sent = collections.Counter()
        self.close_events = []
        self.stop_events = []
        self.recv_log = []
        self.recv_payload = {}
        self.write_log = collections.defaultdict(list)
        self.deferred_bumps = set()
        self.tasks_created = collections.Counter()
        if self.on_observed is not None:
            self.on_observed()
        for L in self.loops:
            L.errors = [e for e in L.errors]           # errors of the earlier session stay visible (they are failures of the history as a whole)

    def _finished(self):
        return all(tk.done() or self.loops[i].stopped for i, tk in enumerate(self.tasks))

    def _drive(self, max_steps, stuck_after):
        rng, policy = self.rng, self.policy
        victim = rng.randrange(self.m)
        prio = list(range(self.m))
        rng.shuffle(prio)
        change_pts = set(rng.sample(range(1, 4000), 6)) if policy == 'pct' else ()
        last_progress, last_step = -1, 0
        conns_to = None
        while not self._finished():
            if self.steps > max_steps:
                if getattr(self, '_extend', False) and not getattr(self, '_extended', False) and policy != 'uniform':
                    self._extended = True
                    policy = 'uniform'
                    max_steps *= 10
                else:
                    self.status = 'STEP-LIMIT'
                    return
            if conns_to is None or (len(self.conns), self.conn_epoch) != conns_to[0]:
                by = collections.defaultdict(list)
                for c in self.conns.values():
                    by[c.dst].append(c)
                conns_to = ((len(self.conns), self.conn_epoch), by)
            cand = []
            inflight_any = False
            for L in self.loops:
                if L.stopped:
                    continue
                inflight = any((c.buf or (c.closed and not c.lost)) for c in conns_to[1][L.pid])
                runnable = bool(L.ready) or bool(L.timers and L.timers[0][0] <= self.now)
                inflight_any |= inflight
                if runnable or inflight:
                    cand.append((L, runnable))
            if not cand:
                nxt = [L.timers[0][0] for L in self.loops if L.timers and not L.stopped]
                if not nxt:
                    self.status = 'DEADLOCK'        # quiescent with unfinished main tasks: a logical fact
                    return
                self.now = min(nxt)
                continue
            if self.progress != last_progress:
                last_progress, last_step = self.progress, self.steps
            elif self.steps - last_step > stuck_after and not inflight_any:
                # nobody wrote, nothing delivered, no MPyC task finished for a long counted stretch
                self.status = 'STUCK'
                return
            # virtual time advances so that retry timers (connect) fire even while others spin
            if self.steps % 50 == 0:
                self.now += 0.01
            fair = rng.random() < 0.03
            if policy == 'starve' and not fair:
                others = [c for c in cand if c[0].pid != victim]
                L = rng.choice(others)[0] if others else cand[0][0]
            elif policy == 'reverse' and not fair:
                L = max(cand, key=lambda c: c[0].pid)[0]
            elif policy == 'pct' and not fair:
                if self.steps in change_pts:
                    prio.insert(0, prio.pop(rng.randrange(self.m)))
                L = min(cand, key=lambda c: prio.index(c[0].pid))[0]
            else:
                L = rng.choice(cand)[0]
            arrivals = []
            for c in conns_to[1][L.pid]:
                if c.buf:
                    if policy == 'lazy' and L.ready and not fair:
                        continue
                    if policy == 'dribble':
                        k = 1
                    elif policy == 'eager':
                        k = len(c.buf)
                    else:
                        if rng.random() < 0.3:
                            continue
                        k = rng.randint(1, len(c.buf)) if rng.random() < 0.5 else len(c.buf)
                    if c.refs:
                        base = len(c.log) - len(c.buf)          # stream offset of c.buf[0]
                        keep = []
                        for off, obj in c.refs:
                            cur = bytes(obj)
                            lo = off - base
                            if lo >= 0 and lo + len(cur) <= len(c.buf):
                                c.buf[lo:lo + len(cur)] = cur
                                c.log[off:off + len(cur)] = cur
                                if lo + len(cur) > k:
                                    keep.append((off, obj))
                        c.refs = keep
                    chunk = bytes(c.buf[:k])
                    del c.buf[:k]
                    c.delivered += k
                    c.chunks += 1
                    self.progress += 1
                    arrivals.append(self._deliver(c, chunk))
                elif c.closed and not c.lost:
                    c.lost = True
                    self.progress += 1
                    arrivals.append(self._lose(c))
            self.sched_hash.update(bytes([L.pid, len(arrivals) & 255]))
            if self.sched_log is not None:
                self.sched_log.append((L.pid, len(arrivals)))
            L.iteration(arrivals)
            self.steps += 1
        self.status = 'DONE'
        if self.drain_after and not self.crashed:
            # every party has returned from its program (and from shutdown()): whatever MPyC work is still runnable now outlived the shutdown
            for _ in range(20000):
                live = [L for L in self.loops if not L.stopped and L.ready]
                if not live:
                    break
                for L in live:
                    L.iteration([])

    def _deliver(self, c, chunk):
        return lambda: self.ctx[c.dst].run(c.proto.data_received, chunk)

    def _lose(self, c):
        exc = ConnectionResetError('simulated reset') if c.reset else None
        return lambda: self.ctx[c.dst].run(c.proto.connection_lost, exc)

    # ---- observations ----------------------------------------------------------------------
    def results(self):
        out = []
        for i, tk in enumerate(self.tasks):
            if i in self.crashed:
                out.append(('CRASHED',))
            elif not tk.done():
                out.append(('PENDING',))
            elif tk.cancelled():
                out.append(('CANCELLED',))
            elif tk.exception() is not None:
                out.append(('EXC', repr(tk.exception())))
            else:
                out.append(('OK', tk.result()))
        return out

    def ok_results(self):
        """list of results if every party completed normally, else None"""
        r = self.results()
        if self.status == 'DONE' and all(x[0] == 'OK' for x in r):
            return [x[1] for x in r]
        return None

    def handshake_len(self, i, j):
        """independent computation of the opening handshake i->j from (m, t, pids)"""
        if i > j:
            return 0
        n = 2
        if not self.no_prss:
            n += 16 * sum(1 for S in itertools.combinations(range(self.m), self.m - self.t) if S[0] == i and j in S)
        return n

    def frames(self, i, j):
        """Independent parse of everything i wrote to j: ([(label, payload)], handshake bytes, trailing garbage)"""
        c = self.conns.get((i, j))
        if c is None:
            return [], b'', 0
        data = bytes(c.log)
        hs = self.handshake_len(i, j)
        fr = []
        k = hs
        while k + 12 <= len(data):
            pc, n = struct.unpack_from('<qI', data, k)
            if k + 12 + n > len(data):
                break
            fr.append((pc, data[k + 12:k + 12 + n]))
            k += 12 + n
        return fr, data[:hs], len(data) - k

    def errors(self):
        return [e for L in self.loops for e in L.errors]

    def error_summaries(self):
        out = []
        for e in self.errors():
            exc = e.get('exception')
            out.append(f"{e.get('message', '')[:80]} {type(exc).__name__ if exc is not None else ''}: {str(exc)[:120]}")
        return out

    def sched_sig(self):
        return self.sched_hash.hexdigest()

    def wire_check(self):
        """C09 offline checker over the recorded history.  Returns list of problem strings."""
        probs = []
        recs = collections.defaultdict(list)
        for pid, peer, pc, early in self.recv_log:
            recs[(peer, pid)].append(pc)
        for (i, j), c in self.conns.items():
            fr, hs, rest = self.frames(i, j)
            labels = [pc for pc, _ in fr]
            if rest and i not in self.crashed:
                probs.append(f'trailing {rest} unparsed bytes on {i}->{j}')
            cnt = collections.Counter(labels)
            dup = [l for l, n in cnt.items() if n > 1]
            if dup:
                probs.append(f'duplicate labels on {i}->{j}: {dup[:3]}')
            rc = collections.Counter(recs.get((i, j), []))
            if rc != cnt:
                only_sent = list((cnt - rc).elements())[:3]
                only_recv = list((rc - cnt).elements())[:3]
                probs.append(f'send/receive label multisets differ on {i}->{j}: sent-not-received {only_sent} received-not-sent {only_recv}')
            for pc, payload in fr:
                got = self.recv_payload.get((j, i, pc))
                if got is not None and got and bytes(got[0]) != payload:
                    probs.append(f'payload handed over differs from bytes sent on {i}->{j} label {pc}')
                elif got is not None and not got and not c.buf and i not in self.crashed and j not in self.crashed and not self.loops[j].stopped:
                    # a receive for this label was posted at j, the complete message has been delivered to j's protocol object (nothing in flight), yet it was never handed over
                    probs.append(f'message delivered but never handed to its receive on {i}->{j} label {pc}')
            if c.proto is not None and getattr(c.proto, 'buffers', None):
                probs.append(f'{len(c.proto.buffers)} leftover buffer entries at {j} for peer {i}')
            late = [x for x in self.writes_after_close if x[0] == i and x[1] == j]
            if late:
                probs.append(f'{len(late)} message(s) written on {i}->{j} after the connection was closed by shutdown (first: {late[0][2]} bytes): never delivered')
            if c.proto is not None and len(getattr(c.proto, 'bytes', b'')):
                probs.append(f'undigested bytes at {j} for peer {i}')
        return probs
