"""Independent reference oracles written from the mathematics (no mpyc code).

ref polynomials over Z_p are coefficient lists, low degree first, no trailing zeros.
RefField(p, modulus=None): GF(p) if modulus is None else GF(p^d) = Z_p[x]/(modulus); elements are ints (prime)
or tuples of d coefficients low->high (extension).  The integer encoding of an extension element is
sum c_i p^i (same convention as the polynomial's integer value).
"""
import itertools
from fractions import Fraction


# ---------------------------------------------------------------------------- number theory
def is_prime_td(n):
    if n < 2:
        return False
    if n < 4:
        return True
    if n % 2 == 0:
        return False
    i = 3
    while i * i <= n:
        if n % i == 0:
            return False
        i += 2
    return True


def is_prime_mr(n):
    """deterministic Miller-Rabin for n < 3.3e24, plus extra bases above (independent of mpyc.gmpy)"""
    if n < 2:
        return False
    small = [2, 3, 5, 7, 11, 13, 17, 19, 23, 29, 31, 37, 41]
    for p in small:
        if n % p == 0:
            return n == p
    d, s = n - 1, 0
    while d % 2 == 0:
        d //= 2
        s += 1
    bases = small if n < 3317044064679887385961981 else small + [43, 47, 53, 59, 61, 67, 71, 73, 79, 83, 89, 97]
    for a in bases:
        x = pow(a, d, n)
        if x in (1, n - 1):
            continue
        for _ in range(s - 1):
            x = x * x % n
            if x == n - 1:
                break
        else:
            return False
    return True


def factorize(n):
    n = abs(n)
    f = {}
    d = 2
    while d * d <= n:
        while n % d == 0:
            f[d] = f.get(d, 0) + 1
            n //= d
        d += 1 if d == 2 else 2
    if n > 1:
        f[n] = f.get(n, 0) + 1
    return f


def egcd(a, b):
    x0, x1, y0, y1 = 1, 0, 0, 1
    while b:
        q = a // b
        a, b = b, a - q * b
        x0, x1 = x1, x0 - q * x1
        y0, y1 = y1, y0 - q * y1
    return a, x0, y0


def gcd(a, b):
    while b:
        a, b = b, a % b
    return abs(a)


def isqrt_bisect(n):
    lo, hi = 0, n + 1
    while hi - lo > 1:
        mid = (lo + hi) // 2
        if mid * mid <= n:
            lo = mid
        else:
            hi = mid
    return lo


def iroot_bisect(n, k):
    lo, hi = 0, n + 1
    while hi - lo > 1:
        mid = (lo + hi) // 2
        if mid ** k <= n:
            lo = mid
        else:
            hi = mid
    return lo


def legendre_def(a, p):
    """p odd prime: 0 if p|a, 1 if a is a nonzero square mod p, else -1 (by Euler's criterion on ints)"""
    a %= p
    if a == 0:
        return 0
    return 1 if pow(a, (p - 1) // 2, p) == 1 else -1


def jacobi_def(a, n):
    """n odd positive: product of Legendre symbols over the factorisation of n"""
    r = 1
    for p, e in factorize(n).items():
        r *= legendre_def(a, p) ** e
    return r


def kronecker_def(a, n):
    """Kronecker symbol (a|n) for all integers, from the definition"""
    if n == 0:
        return 1 if abs(a) == 1 else 0
    r = 1
    if n < 0:
        n = -n
        if a < 0:
            r = -r
    e2 = 0
    while n % 2 == 0:
        n //= 2
        e2 += 1
    if e2:
        if a % 2 == 0:
            return 0
        k2 = 1 if a % 8 in (1, 7) else -1
        r *= k2 ** e2
    if n == 1:
        return r
    return r * jacobi_def(a, n)


# ---------------------------------------------------------------------------- polynomials over Z_p
def ptrim(a):
    a = list(a)
    while a and a[-1] == 0:
        a.pop()
    return a


def padd(a, b, p):
    n = max(len(a), len(b))
    return ptrim([((a[i] if i < len(a) else 0) + (b[i] if i < len(b) else 0)) % p for i in range(n)])


def psub(a, b, p):
    n = max(len(a), len(b))
    return ptrim([((a[i] if i < len(a) else 0) - (b[i] if i < len(b) else 0)) % p for i in range(n)])


def pmul(a, b, p):
    if not a or not b:
        return []
    c = [0] * (len(a) + len(b) - 1)
    for i, x in enumerate(a):
        if x:
            for j, y in enumerate(b):
                c[i + j] = (c[i + j] + x * y) % p
    return ptrim(c)


def pdivmod(a, b, p):
    a = ptrim([x % p for x in a])
    b = ptrim([x % p for x in b])
    if not b:
        raise ZeroDivisionError
    inv = pow(b[-1], -1, p)
    q = [0] * max(len(a) - len(b) + 1, 0)
    r = a[:]
    while len(r) >= len(b):
        c = r[-1] * inv % p
        k = len(r) - len(b)
        q[k] = c
        for i, y in enumerate(b):
            r[k + i] = (r[k + i] - c * y) % p
        r = ptrim(r)
    return ptrim(q), r


def pmonic(a, p):
    a = ptrim(a)
    if not a:
        return a
    inv = pow(a[-1], -1, p)
    return [x * inv % p for x in a]


def pgcd(a, b, p):
    a, b = ptrim([x % p for x in a]), ptrim([x % p for x in b])
    while b:
        a, b = b, pdivmod(a, b, p)[1]
    return pmonic(a, p)


def ppowmod(a, n, b, p):
    r = [1]
    r = pdivmod(r, b, p)[1]
    a = pdivmod(a, b, p)[1]
    while n:
        if n & 1:
            r = pdivmod(pmul(r, a, p), b, p)[1]
        a = pdivmod(pmul(a, a, p), b, p)[1]
        n >>= 1
    return r


def peval(a, x, p):
    y = 0
    for c in reversed(a):
        y = (y * x + c) % p
    return y


def pint(a, p):
    """integer value of polynomial a at x=p (the total order used by mpyc.gfpx)"""
    return sum(c * p ** i for i, c in enumerate(a))


def pfromint(n, p):
    a = []
    while n:
        a.append(n % p)
        n //= p
    return a


def all_monic(p, d):
    for low in itertools.product(range(p), repeat=d):
        yield list(low) + [1]


def is_irreducible_bf(a, p):
    """brute force: degree >= 1 and no monic factor of degree 1..deg/2"""
    a = ptrim([x % p for x in a])
    d = len(a) - 1
    if d < 1:
        return False
    for k in range(1, d // 2 + 1):
        for f in all_monic(p, k):
            if not pdivmod(a, f, p)[1]:
                return False
    return True


# ---------------------------------------------------------------------------- fields
class RefField:
    def __init__(self, p, modulus=None):
        assert is_prime_td(p) if p < 10**12 else is_prime_mr(p)
        self.p = p
        if modulus is not None:
            modulus = ptrim([c % p for c in modulus])
            if len(modulus) == 2:          # degree 1: plain prime field with representation shift ignored
                pass
            assert is_irreducible_bf(modulus, p), 'oracle: modulus not irreducible'
        self.mod = modulus
        self.d = 1 if modulus is None else len(modulus) - 1
        self.order = p ** self.d

    # element <-> integer encoding
    def from_int(self, n):
        if self.mod is None:
            return n % self.p
        if n < 0:
            n %= self.order
        digits = pfromint(n, self.p)                 # an integer denotes the polynomial of its base-p digits
        if len(digits) > self.d:
            digits = pdivmod(digits, self.mod, self.p)[1]
        return tuple((digits + [0] * self.d)[:self.d])

    def to_int(self, a):
        if self.mod is None:
            return a % self.p
        return pint(list(a), self.p)

    def _l(self, a):
        return ptrim(list(a))

    def _e(self, l):
        return tuple((list(l) + [0] * self.d)[:self.d])

    def add(self, a, b):
        if self.mod is None:
            return (a + b) % self.p
        return self._e(padd(self._l(a), self._l(b), self.p))

    def sub(self, a, b):
        if self.mod is None:
            return (a - b) % self.p
        return self._e(psub(self._l(a), self._l(b), self.p))

    def neg(self, a):
        return self.sub(self.zero(), a)

    def mul(self, a, b):
        if self.mod is None:
            return a * b % self.p
        if self.p == 2:
            return self._b2e(self._clmulmod(self._e2b(a), self._e2b(b)))
        return self._e(pdivmod(pmul(self._l(a), self._l(b), self.p), self.mod, self.p)[1])

    # characteristic 2: bit-mask arithmetic (carry-less multiply, shift-xor reduction)
    def _e2b(self, a):
        return sum(c << i for i, c in enumerate(a))

    def _b2e(self, n):
        return tuple((n >> i) & 1 for i in range(self.d))

    def _clmulmod(self, x, y):
        m = self._e2b(self.mod)
        d = self.d
        r = 0
        while y:
            if y & 1:
                r ^= x
            y >>= 1
            x <<= 1
            if x >> d & 1:
                x ^= m
        return r

    def zero(self):
        return 0 if self.mod is None else self._e([])

    def one(self):
        return 1 if self.mod is None else self._e([1])

    def is_zero(self, a):
        return a == self.zero()

    def inv(self, a):
        if self.is_zero(a):
            raise ZeroDivisionError
        return self.pow(a, self.order - 2)

    def div(self, a, b):
        return self.mul(a, self.inv(b))

    def pow(self, a, n):
        if n < 0:
            a = self.inv(a)
            n = -n
        if self.mod is not None and self.p == 2:
            x, r = self._e2b(a), 1
            while n:
                if n & 1:
                    r = self._clmulmod(r, x)
                x = self._clmulmod(x, x)
                n >>= 1
            return self._b2e(r)
        r = self.one()
        while n:
            if n & 1:
                r = self.mul(r, a)
            a = self.mul(a, a)
            n >>= 1
        return r

    def elements(self):
        return (self.from_int(i) for i in range(self.order))

    def is_square(self, a):
        if self.is_zero(a):
            return True
        if self.p == 2:
            return True
        return self.pow(a, (self.order - 1) // 2) == self.one()


# ---------------------------------------------------------------------------- Lagrange
def interpolate(F, points):
    """unique polynomial of degree < len(points) through (x, y) with x ints (embedded in F), y in F.
    returns coefficient list low->high as F elements."""
    n = len(points)
    coeffs = [F.zero()] * n
    for i, (xi, yi) in enumerate(points):
        basis = [F.one()]
        den = F.one()
        xi_ = F.from_int(xi)
        for j, (xj, _) in enumerate(points):
            if i == j:
                continue
            xj_ = F.from_int(xj)
            nb = [F.zero()] * (len(basis) + 1)
            for k, c in enumerate(basis):
                nb[k + 1] = F.add(nb[k + 1], c)
                nb[k] = F.sub(nb[k], F.mul(xj_, c))
            basis = nb
            den = F.mul(den, F.sub(xi_, xj_))
        s = F.div(yi, den)
        for k, c in enumerate(basis):
            coeffs[k] = F.add(coeffs[k], F.mul(c, s))
    return coeffs


def poly_degree(F, coeffs):
    d = len(coeffs) - 1
    while d >= 0 and F.is_zero(coeffs[d]):
        d -= 1
    return d


def poly_eval(F, coeffs, x):
    x_ = F.from_int(x)
    y = F.zero()
    for c in reversed(coeffs):
        y = F.add(F.mul(y, x_), c)
    return y


def sharing_degree_and_secret(F, shares):
    """shares: list of F elements for parties 0..m-1 (x = 1..m).  Returns (degree, constant term)."""
    pts = [(i + 1, s) for i, s in enumerate(shares)]
    c = interpolate(F, pts)
    return poly_degree(F, c), c[0]


def field_of(mpyc_field):
    """Oracle field for an mpyc field class (uses only its public description)."""
    p = int(mpyc_field.characteristic)
    d = int(mpyc_field.ext_deg)
    if d == 1:
        return RefField(p)
    mod = [int(c) for c in list(mpyc_field.modulus)]
    return RefField(p, mod)


def elt(F, e):
    """mpyc field element -> oracle element (uses only .value)"""
    v = e.value
    if F.mod is None:
        return int(v) % F.p
    return F.from_int(int(v))
