"""Worker: runs one shard of one check in a fresh process.  usage: -m vlib.worker <cNN> <in.json> <out.json>"""
import sys
import os
import json
import importlib
import traceback
import faulthandler


def main():
    faulthandler.enable()
    try:
        # a changed library may blow up (e.g. 2**garbage): a bounded address space turns that into a MemoryError inside the run instead of taking the machine down
        import resource
        lim = int(os.environ.get('VERIF_WORKER_AS_GB', '12')) << 30
        resource.setrlimit(resource.RLIMIT_AS, (lim, lim))
    except Exception:
        pass
    modname, fin, fout = sys.argv[1:4]
    with open(fin) as f:
        shard = json.load(f)
    from vlib.rec import Recorder
    mod = importlib.import_module(f'checks.{modname}')
    rec = Recorder(mod.PROPERTY, shard)
    try:
        mod.run(shard, rec)
    except BaseException as e:            # harness failure is never a verdict on the property
        rec.inconclusive_because(f'worker exception: {type(e).__name__}: {e}\n' + traceback.format_exc()[-1500:])
    out = rec.dump()
    tmp = fout + '.tmp'
    with open(tmp, 'w') as f:
        json.dump(out, f)
    os.replace(tmp, fout)


if __name__ == '__main__':
    main()
