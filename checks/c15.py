"""C15 — pseudorandom secret sharing is consistent for every key assignment."""
import itertools
import random

PROPERTY = 'C15'
ENGINE = 'UNIT'
LEVEL = 'exploration'
TECHNIQUE = 'runtime oracle monitor: real pseudorandom_share(_zero) (and numpy twins) evaluated for all m parties on harness-made key sets and adversarial PRF stubs; degree/secret judged by independent interpolation'
RULE = ('case = (field, m, t, prf kind, uci, n); the m parties compute their shares independently; non-trivial = t >= 1 and n >= 1; '
        'distinct by that tuple')
ASSUMPTIONS = ['oracle field arithmetic/Lagrange (vlib/oracles/ref.py)', 'secret of a PRSS sharing = sum over subsets of the PRF output embedded by the field constructor']
REQUIRE = {'any': {'share_sharings': 300, 'zero_sharings': 300}}
LEVEL_TEXT = 'exploration: all (m,t) with 2t<m<=7, prime/binary/extension fields, real PRFs and adversarial PRF outputs, batch sizes 0,1,2,17'
LEVEL_NOTE = 'trusted: vlib/oracles/ref.py; hashlib only through the real PRF'

FIELDS = [('p', 11), ('p', 101), ('p', 2**61 - 1), ('p', 2**127 - 1), ('x', 2, 'x^8+x^4+x^3+x+1'), ('x', 3, 'x^2+1'), ('x', 2, 'x^4+x+1'), ('p', 13), ('p', 2**31 - 1), ('p', 65521)]


def shards(tier, seed):
    out = []
    for i, f in enumerate(FIELDS):
        out.append({'name': f'list-{i}', 'field': list(f), 'np': False, 'reps': 2 if tier == 'quick' else 40})
        if tier == 'thorough' or i % 2 == 0:
            out.append({'name': f'np-{i}', 'field': list(f), 'np': True, 'reps': 1 if tier == 'quick' else 20})
    for cfg, hist in (((5, 1, False), ('session', 2)), ((7, 2, False), ('session', 3)), ((3, 1, False), ('session', 0)), ((5, 2, False), ('assign', 1)), ((3, 1, False), None)):
        out.append({'name': f'runtime-m{cfg[0]}t{cfg[1]}-{hist[0] + str(hist[1]) if hist else "plain"}', 'kind': 'runtime', 'cfg': list(cfg), 'history': list(hist) if hist else None,
                    'programs': 12 if tier == 'quick' else 80, 'np': False})
    return out


class StubPRF:
    """adversarial PRF: deterministic in (key, input), outputs chosen by mode"""

    def __init__(self, key, bound, mode, np=None):
        self.key, self.max, self.mode, self.np = key, bound, mode, np

    def __call__(self, s, n=None):
        shape = None
        if isinstance(n, tuple):
            shape = n
            k = 1
            for d in shape:
                k *= d
        else:
            k = 1 if n is None else n
        r = random.Random(repr((self.key, bytes(s))))
        if self.mode == 'zero':
            x = [0] * k
        elif self.mode == 'max':
            x = [self.max - 1] * k
        else:
            x = [r.randrange(self.max) for _ in range(k)]
        if shape is not None:
            a = self.np.empty(k, dtype=object)
            a[:] = x
            return a.reshape(shape)
        return x[0] if n is None else x


def run(shard, rec):
    if shard.get('kind') == 'runtime':
        # the PRSS sharings the runtime actually produces (keys, subsets and PRF objects as it keeps them across sessions and threshold changes):
        # share monitor of C11 on random bits / masks, all parties' shares interpolated
        from checks import c11
        rec.count('runtime_prss_shards')
        return c11.run(shard, rec)
    from vlib import env
    env.prepare(numpy=shard['np'])
    from mpyc import thresha
    from checks.c12 import make_field
    from vlib.oracles import ref
    np = None
    if shard['np']:
        import numpy as np
    field = make_field(shard['field'])
    F = ref.field_of(field)
    q = F.order
    fname = repr(shard['field'])
    rng = random.Random(f"c15/{shard['seed']}/{shard['name']}")

    def red(v):
        return ref.elt(F, v if isinstance(v, field) else field(v))

    for m in range(1, 8):
        if m >= q:
            continue
        for t in range(0, (m + 1) // 2):
            if 2 * t >= m:
                continue
            subsets = list(itertools.combinations(range(m), m - t))
            for rep in range(shard['reps']):
                for mode in ('real', 'zero', 'max', 'rand'):
                    bound = rng.choice([q, q, 2, 1 << 40]) if mode == 'real' else q
                    keys = {S: rng.randbytes(16) for S in subsets}
                    if mode == 'real':
                        mk = lambda S: thresha.PRF(keys[S], bound)
                    else:
                        mk = lambda S: StubPRF(keys[S], bound, mode, np)
                    # a party's key table is filled in the order the keys arrive (own keys first, then per peer as connections come up), not lexicographically
                    def table(i):
                        mine = [S for S in subsets if i in S]
                        own = [S for S in mine if S[0] == i]
                        rest = [S for S in mine if S[0] != i]
                        if rep % 3:
                            rng.shuffle(rest)
                        order_ = own + rest if rep % 3 != 2 else rng.sample(mine, len(mine))
                        return {S: mk(S) for S in order_}
                    prfs = [table(i) for i in range(m)]
                    uci = rng.randbytes(rng.choice([0, 1, 8]))
                    for n in (0, 1, 2, 17):
                        case = [fname, m, t, mode, bound, uci.hex(), n, rep]
                        if not rec.wants(case):
                            continue
                        # secret expected: sum_S PRF_S(uci)[h], each PRF called once more by the oracle
                        oracle_out = {S: mk(S)(uci, n) for S in subsets}
                        exp = []
                        for h in range(n):
                            acc = F.zero()
                            for S in subsets:
                                acc = F.add(acc, F.from_int(oracle_out[S][h]))
                            exp.append(acc)
                        sh = [thresha.pseudorandom_share(field, m, i, prfs[i], uci, n) for i in range(m)]
                        bad = None
                        if any(len(r) != n for r in sh):
                            bad = 'wrong batch size'
                        for h in range(n if not bad else 0):
                            deg, c0 = ref.sharing_degree_and_secret(F, [red(sh[i][h]) for i in range(m)])
                            rec.count('share_sharings')
                            if deg > t:
                                bad = f'degree {deg} > t={t}'
                            elif c0 != exp[h]:
                                bad = f'secret {c0} != sum of subset PRF outputs {exp[h]}'
                        if bad:
                            rec.violation(f'pseudorandom_share {fname} m={m} t={t} prf={mode} n={n}: {bad}', {'mechanism': 'prss-share'}, {'case': case}, case=case)
                        z = [thresha.pseudorandom_share_zero(field, m, i, prfs[i], uci, n) for i in range(m)]
                        bad = None
                        if any(len(r) != n for r in z):
                            bad = 'wrong batch size'
                        for h in range(n if not bad else 0):
                            deg, c0 = ref.sharing_degree_and_secret(F, [red(z[i][h]) for i in range(m)])
                            rec.count('zero_sharings')
                            if deg > 2 * t:
                                bad = f'degree {deg} > 2t={2 * t}'
                            elif not F.is_zero(c0):
                                bad = f'secret {c0} != 0'
                        if bad:
                            rec.violation(f'pseudorandom_share_zero {fname} m={m} t={t} prf={mode} n={n}: {bad}', {'mechanism': 'prss-zero'}, {'case': case}, case=case)
                        if np is not None:
                            sha = [thresha.np_pseudorandom_share(field, m, i, prfs[i], uci, n) for i in range(m)]
                            za = [thresha.np_pseudorandom_share_0(field, m, i, prfs[i], uci, n) for i in range(m)]
                            rec.count('np_compared')
                            for i in range(m):
                                if [red(v) for v in sha[i].value] != [red(v) for v in sh[i]]:
                                    rec.violation(f'np_pseudorandom_share != list version {fname} m={m} t={t} prf={mode} n={n} party {i}', {'mechanism': 'prss-np'}, {'case': case}, case=case)
                                    break
                                if [red(v) for v in za[i].value] != [red(v) for v in z[i]]:
                                    rec.violation(f'np_pseudorandom_share_0 != list version {fname} m={m} t={t} prf={mode} n={n} party {i}', {'mechanism': 'prss-np0'}, {'case': case}, case=case)
                                    break
                        rec.case(case, nontrivial=t >= 1 and n >= 1,
                                 sample={'field': fname, 'm': m, 't': t, 'prf': mode, 'bound': bound, 'n': n, 'subsets': len(subsets)} if rep == 0 and n == 2 and m == 5 and t == 2 else None)
