"""C08 — results and termination do not depend on the schedule."""
import random

PROPERTY = 'C08'
ENGINE = 'SIM'
LEVEL = 'exploration'
TECHNIQUE = 'runtime monitoring of m real parties under a deterministic adversarial-but-fair scheduler (party interleaving, per-connection chunking and delay as inputs): completion by quiescence detection, outputs vs reference, label send/receive matching, loop-exception monitor'
RULE = ('case = (configuration, program, schedule policy, schedule seed); non-trivial = m >= 2 and the program exchanged >= 1 message; '
        'distinct by (config, program hash, schedule hash)')
ASSUMPTIONS = ['simulated transport = reliable FIFO byte stream per direction with arbitrary finite delay and chunking; event loop runs ready handles FIFO and takes I/O at iteration boundaries',
               'schedules are sampled (7 biased-but-fair policies x seeds), not enumerated']
REQUIRE = {'any': {'runs': 100, 'receive_before_arrival': 50, 'receive_after_arrival': 50, 'distinct_schedules': 50}}
LEVEL_TEXT = ('exploration: random secure-integer DAG programs (nested coroutines, dangling results, double awaits, mid-program barriers, data-dependent retry loops) '
              'x party configurations x 7 scheduler policies x seeds; termination decided logically (quiescence / no-progress), never by wall-clock')
LEVEL_NOTE = 'trusted: the SIM engine (vlib/sim.py) models the transport and loop no stronger and no weaker than asyncio over TCP; python reference interpreter of the DAG'
TIMEOUT = {'quick': 1500, 'thorough': 10000}

from vlib.runner import QUICK_CONFIGS, ALL_CONFIGS, config_name


def shards(tier, seed):
    cfgs = QUICK_CONFIGS if tier == 'quick' else ALL_CONFIGS
    out = []
    for c in cfgs:
        nprog = (20 if c[0] <= 5 else 8) if tier == 'quick' else 80
        out.append({'name': config_name(c), 'cfg': list(c), 'programs': nprog, 'seeds': 1 if tier == 'quick' else 4})
    out.append({'name': 'probe-asymmetric-yield', 'kind': 'probe'})
    if tier == 'thorough':
        out.append({'name': 'realnet', 'kind': 'realnet', 'cfgs': [[2, 0, False], [3, 1, False], [3, 1, True], [5, 2, False]], 'programs': 6})
    else:
        out.append({'name': 'realnet', 'kind': 'realnet', 'cfgs': [[3, 1, False]], 'programs': 2})
    return out


def run(shard, rec):
    from vlib import env
    env.prepare()
    from vlib import sim, progs, runner
    sim.install()
    if shard.get('kind') == 'realnet':
        from vlib import realnet
        return realnet.run_c08(shard, rec)
    if shard.get('kind') == 'probe':
        # directed witness of F-C08-1 (kept demonstrable on every run): one party yields between two `%` operations
        spec = {'l': 16, 'inputs': [[0, 100], [1, 23]], 'steps': [['mod', [0], 7], ['add', [0, 1], None], ['mod', [1], 5]], 'outs': [[2, 3, 4]],
                'barrier_at': None, 'await_twice': False, 'early_await': None, 'sleepy': 1}
        for cfg in ([3, 1, False], [2, 0, True]):
            for policy in ('uniform', 'eager'):
                case = ['probe', cfg, policy]
                w = runner.run_spec(cfg[0], cfg[1], cfg[2], spec, policy, 7)
                rec.count('runs')
                feats = {'asymmetric_yield': True, 'deferred_bump': bool(w.deferred_bumps)}
                for mech, text in runner.judge_completion(w) + runner.judge_outputs(w, progs.expected_outputs(spec)):
                    rec.violation(f'probe {cfg} {policy}: {text}', dict(feats, mechanism=mech), {'spec': spec, 'policy': policy}, case=case)
                rec.case(case, nontrivial=True)
        return
    m, t, no_prss = shard['cfg']
    base = f"c08/{shard['seed']}/{shard['name']}"
    rng = random.Random(base)
    scheds = set()
    for pi in range(shard['programs']):
        heavy = pi % 3 == 0
        ops = [o for o in progs.ALL if not o.startswith(('gcd', 'lcm', 'inverse'))] if heavy else progs.CHEAP
        spec = progs.gen(rng, m, l=8 if heavy else rng.choice([8, 16, 32]), ops=ops, n_steps=(3, 7) if heavy or m >= 5 else (3, 9))
        if pi % 4 != 1:
            spec['sleepy'] = None            # one program in four lets a single party yield to its event loop mid-program
        expected = progs.expected_outputs(spec)
        outcomes = set()
        for policy in sim.POLICIES:
            for s in range(shard['seeds']):
                sseed = rng.randrange(1 << 30)
                case = [shard['name'], pi, policy, sseed]
                if not rec.wants(case):
                    continue
                nb = pi % 5 == 3             # some programs run with barriers disabled (--no-barrier)
                w = runner.run_spec(m, t, no_prss, spec, policy, sseed, world_kwargs={'no_barrier': nb})
                rec.count('runs')
                rec.count('runs_no_barrier', int(nb))
                nmsg = sum(len(w.frames(i, j)[0]) for (i, j) in w.conns)
                early = sum(1 for r in w.recv_log if r[3])
                rec.count('receive_after_arrival', early)
                rec.count('receive_before_arrival', len(w.recv_log) - early)
                rec.count('loop_iterations', w.steps)
                rec.seen('policies', policy)
                sig = w.sched_sig()
                feats = {'asymmetric_yield': spec.get('sleepy') is not None or (no_prss and progs.timing_skew(spec)), 'deferred_bump': bool(w.deferred_bumps)}      # F-C08-1's condition: one party yields, or (F-C01-2) without PRSS a public/opened value is awaited mid-program
                for site in w.deferred_bumps:
                    rec.seen('deferred_toplevel_pc_bump_sites', f'{site[0]} -> {site[1]}')
                problems = runner.judge_completion(w) + runner.judge_outputs(w, expected)
                # (iii) label matching: every label sent is received under the same label
                problems += [('label-mismatch', p) for p in w.wire_check() if 'multisets differ' in p or 'duplicate' in p]
                for mech, text in problems:
                    rec.violation(f'{shard["name"]} program {pi} policy {policy}: {text}', dict(feats, mechanism=mech),
                                  {'spec': spec, 'policy': policy, 'sched_seed': sseed, 'schedule': sig}, case=case)
                outcomes.add(repr(w.ok_results()))
                rec.case([shard['name'], pi, sig], nontrivial=m >= 2 and nmsg > 0,
                         sample={'config': shard['name'], 'program_steps': [s[0] for s in spec['steps']], 'policy': policy, 'schedule': sig,
                                 'iterations': w.steps, 'messages': nmsg, 'outputs': expected} if (pi, policy) in ((0, 'lazy'), (1, 'dribble')) else None)
                scheds.add(sig)
        if len(outcomes) > 1:
            rec.count('programs_with_schedule_dependent_outcome')
    # fixed-point programs: public float factors, truncations, list operations (other coroutine structure than secure integers)
    from vlib import fxprogs
    for pi in range(max(4, shard['programs'] // 2)):
        spec = fxprogs.gen(rng, m, l=16, f=8, ops=fxprogs.CHEAP + ['mul_float', 'div_pub', 'mul_float'], n_steps=(3, 7))
        outcomes = set()
        for policy in rng.sample(sim.POLICIES, 3 if m <= 5 else 2):
            sseed = rng.randrange(1 << 30)
            case = [shard['name'], 'fxp', pi, policy, sseed]
            if not rec.wants(case):
                continue
            w = sim.World(m, t, no_prss, seed=sseed, policy=policy, history='auto').run(fxprogs.build(spec))
            rec.count('runs')
            rec.count('fxp_runs')
            early = sum(1 for r in w.recv_log if r[3])
            rec.count('receive_after_arrival', early)
            rec.count('receive_before_arrival', len(w.recv_log) - early)
            feats = {'asymmetric_yield': False, 'deferred_bump': bool(w.deferred_bumps)}
            for site in w.deferred_bumps:
                rec.seen('deferred_toplevel_pc_bump_sites', f'{site[0]} -> {site[1]}')
            problems = runner.judge_completion(w)
            problems += [('label-mismatch', p) for p in w.wire_check() if 'multisets differ' in p or 'duplicate' in p]
            res = w.ok_results()
            if res is not None and any(r != res[0] for r in res):
                problems.append(('parties-disagree', f'parties obtained different values {[r[0][:5] for r in res[:3]]}'))
            for mech, text in problems:
                rec.violation(f'{shard["name"]} fxp program {pi} {[s[0] for s in spec["steps"]]} policy {policy}: {text}', dict(feats, mechanism=mech),
                              {'fxspec': spec, 'policy': policy, 'sched_seed': sseed}, case=case)
            outcomes.add(repr(res[0][0]) if res else 'none')
            sig = w.sched_sig()
            scheds.add(sig)
            rec.case([shard['name'], 'fxp', pi, sig], nontrivial=m >= 2)
        if len(outcomes) > 1:
            # roundings may legitimately differ by schedule? no: all randomness is seeded per run, but masks differ per seed -> compare only agreement within a run
            rec.count('fxp_programs_with_seed_dependent_rounding')
    rec.count('distinct_schedules', len(scheds))
    # result lists belong to the caller: mutating a returned list (reverse, pop, item assignment) before the computation has finished must give
    # the same outcome as mutating it afterwards (in the synchronous single-party mode it is always "afterwards"); also the run-time threshold switch
    from vlib import progs as _progs
    vals = [rng.randint(2, 9) for _ in range(4)]

    async def alias_program(mpc, pid):
        secint = mpc.SecInt(16)
        xs = mpc.input([secint(v if pid == 0 else 0) for v in vals], senders=0)
        y = mpc.schur_prod(xs, xs)
        y.reverse()                              # the caller's own list
        b = mpc.to_bits(xs[0], 4)
        b.reverse()
        last = b.pop()
        z = mpc.vector_add(xs, xs)
        z[0], z[1] = z[1], z[0]
        s = mpc.sorted(xs)
        del s[0]
        return [await mpc.output(y), await mpc.output(b), await mpc.output(last), await mpc.output(z), await mpc.output(s)]
    exp_alias = [[v * v for v in vals][::-1], [(vals[0] >> i) & 1 for i in range(4)][::-1][:-1], vals[0] & 1, [2 * vals[1], 2 * vals[0]] + [2 * v for v in vals[2:]], sorted(vals)[1:]]
    sw_prog, sw_exp = _progs.threshold_switch_program(tuple(vals))
    late = rng.randrange(m)

    async def p2p_program(mpc, pid):
        # point-to-point and subset forms of transfer/input/output; one party reaches each call late, so that what is sent to it has already arrived
        # (the other parties see the opposite order): the outcome is the same as under any other timing
        import asyncio as _aio
        secint = mpc.SecInt(16)
        res = []
        mm = len(mpc.parties)
        for rnd in range(3):
            a, b = rnd % mm, (rnd + 1) % mm
            if pid == (late + rnd) % mm:
                for _ in range(4 + 3 * rnd):
                    await _aio.sleep(0)
            r1 = await mpc.transfer(('msg', rnd, pid), senders=a, receivers=b)
            r2 = await mpc.transfer(('all', rnd, pid), senders=a)
            x = mpc.input(secint(vals[rnd] + pid), senders=b)
            r3 = await mpc.output(x * x, receivers=a)
            r4 = await mpc.transfer(('sub', rnd, pid), senders=[a, b], receivers=[b])
            res.append([r1 if pid == b else None, r2, r3 if pid == a else None, r4 if pid == b else None])
        return res
    exp_p2p_for = lambda pid: [[('msg', r, r % m) if pid == (r + 1) % m else None, ('all', r, r % m), (vals[r] + (r + 1) % m) ** 2 if pid == r % m else None,
                                [('sub', r, r % m), ('sub', r, (r + 1) % m)] if pid == (r + 1) % m else None] for r in range(3)]
    for name, prog, exp in (('result-list-mutation', alias_program, exp_alias), ('threshold-switch', sw_prog, sw_exp), ('point-to-point', p2p_program, None)):
        for policy in sim.POLICIES:
            sseed = rng.randrange(1 << 30)
            case = [shard['name'], name, policy, sseed]
            if not rec.wants(case):
                continue
            w = sim.World(m, t, no_prss, seed=sseed, policy=policy, history='auto').run(prog)
            rec.count('runs')
            rec.count('micro_runs')
            feats = {'asymmetric_yield': False, 'deferred_bump': bool(w.deferred_bumps), 'micro': name}
            problems = runner.judge_completion(w)
            res = w.ok_results()
            if res is not None:
                for pid, r in enumerate(res):
                    if name == 'point-to-point':
                        exp = exp_p2p_for(pid)
                        norm = lambda v: [norm(x) for x in v] if isinstance(v, (list, tuple)) else v
                        if norm(r) != norm(exp):
                            problems.append(('wrong-output', f'party {pid} obtained {r}, expected {exp}'))
                            break
                        continue
                    rr = [[float(x) if isinstance(x, float) else x for x in part] if isinstance(part, list) else part for part in r]
                    if rr != exp and not (name == 'threshold-switch' and _close_nested(rr, exp)):
                        problems.append(('wrong-output', f'party {pid} obtained {rr}, expected {exp}'))
                        break
            for mech, text in problems:
                rec.violation(f'{shard["name"]} {name} values {vals} policy {policy}: {text}', dict(feats, mechanism=mech), {'values': vals, 'policy': policy, 'sched_seed': sseed}, case=case)
            rec.case([shard['name'], name, w.sched_sig()], nontrivial=m >= 2)


def _close_nested(a, b):
    if isinstance(b, list):
        return isinstance(a, list) and len(a) == len(b) and all(_close_nested(x, y) for x, y in zip(a, b))
    if isinstance(b, float):
        return abs(float(a) - b) <= 0.05
    return a == b
