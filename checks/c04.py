"""C04 — secure finite-field arithmetic equals field arithmetic."""
import random

PROPERTY = 'C04'
ENGINE = 'SIM'
LEVEL = 'exploration'
TECHNIQUE = 'runtime monitoring: random expression programs over secure field types (prime, binary, odd extension, lifted) run by m real parties, every node opened and compared with an independent field implementation; outputs must be elements of the requested (sub)field'
RULE = ('case = (configuration, field, program of field operations, inputs); tiny fields: all operand pairs for every binary operator at m=1 and sampled in SIM; '
        'non-trivial = program contains *, /, ** or ==, or a bitwise/bit-decomposition op; distinct by (config, field, program)')
EXHAUSTIVE = 'all operand pairs for +,-,*,/,== and all elements for **n, ~, to_bits/from_bits in fields of order <= 11 at m=1'
ASSUMPTIONS = ['oracle GF(p^d) arithmetic (vlib/oracles/ref.py)', 'division only by non-zero; small extension fields with m >= q are refused by the library (see known finding in C39) and skipped here']
REQUIRE = {'any': {'nodes_checked': 3000, 'programs_run': 300, 'lifted_programs_run': 20}}
LEVEL_TEXT = 'exploration: 15 field types incl. a 257-bit prime, GF(2^8), GF(3^2), GF(5^3), GF(7^2); configurations up to (7,3) so that small prime fields are lifted (m >= q)'
LEVEL_NOTE = 'trusted: vlib/oracles/ref.py'
TIMEOUT = {'quick': 1500, 'thorough': 12000}

from vlib.runner import config_name
FIELDS = [{'order': 2}, {'order': 3}, {'order': 5}, {'order': 7}, {'order': 11}, {'order': 101}, {'order': 2**31 - 1},
          {'order': 2**256 + 297}, {'order': 4}, {'order': 8}, {'order': 256}, {'order': 9}, {'order': 125}, {'order': 49}, {'modulus': 'x^8+x^4+x^3+x+1'}]
Q_CONFIGS = [(1, 0, False), (2, 0, False), (3, 1, False), (3, 1, True), (4, 1, False), (5, 2, False), (5, 2, True), (7, 3, False), (7, 2, True)]
OPS = ['add', 'sub', 'mul', 'div', 'pow', 'eq', 'ne', 'neg', 'addc', 'mulc', 'rsubc', 'rdivc', 'and', 'or', 'xor', 'inv', 'bits_rt', 'sum', 'prod', 'inprod', 'ifelse', 'iszero', 'iszero_pub']


def shards(tier, seed):
    from vlib.runner import ALL_CONFIGS
    cfgs = Q_CONFIGS if tier == 'quick' else ALL_CONFIGS
    out = [{'name': config_name(c), 'kind': 'sim', 'cfg': list(c), 'per_field': {1: 12, 2: 8, 3: 7, 4: 5, 5: 4, 6: 3, 7: 2}[c[0]] * (1 if tier == 'quick' else 8)} for c in cfgs]
    out.append({'name': 'exhaustive-m1', 'kind': 'exh'})
    return out


def gen(rng, F, q, char2, prime, m):
    n_in = rng.randint(2, 4)
    ins = [[rng.randrange(m), rng.choice([0, 1, q - 1, rng.randrange(q)])] for _ in range(n_in)]
    vals = [F.from_int(v) for _, v in ins]
    steps = []
    tries = 0
    while len(steps) < rng.randint(3, 7) and tries < 200:
        tries += 1
        op = rng.choice(OPS)
        if op in ('and', 'or', 'xor', 'inv', 'bits_rt') and not char2 and not (op == 'bits_rt' and prime):
            continue
        ar = {'add': 2, 'sub': 2, 'mul': 2, 'div': 2, 'eq': 2, 'ne': 2, 'and': 2, 'or': 2, 'xor': 2, 'sum': 3, 'prod': 3, 'inprod': 4, 'ifelse': 3}.get(op, 1)
        args = [rng.randrange(len(vals)) for _ in range(ar)]
        X = [vals[i] for i in args]
        c = None
        if op == 'pow':
            c = rng.choice([0, 1, 2, 3, 5, -1, -2, q - 1, q, 254 if q == 256 else 7])
            if c < 0 and F.is_zero(X[0]):
                continue
        if op in ('addc', 'mulc', 'rsubc', 'rdivc'):
            c = rng.randrange(q)
        if op == 'div' and F.is_zero(X[1]):
            continue
        if op == 'rdivc' and F.is_zero(X[0]):
            continue
        if op == 'ifelse' and F.to_int(X[0]) not in (0, 1):
            continue
        steps.append([op, args, c])
        vals.append(ref_op(F, op, X, c, q))
    return {'inputs': ins, 'steps': steps}, vals


def ref_op(F, op, X, c, q):
    one, zero = F.one(), F.zero()
    b = lambda cond: one if cond else zero
    if op == 'add': return F.add(X[0], X[1])
    if op == 'sub': return F.sub(X[0], X[1])
    if op == 'mul': return F.mul(X[0], X[1])
    if op == 'div': return F.div(X[0], X[1])
    if op == 'pow': return F.pow(X[0], c)
    if op == 'eq': return b(X[0] == X[1])
    if op == 'ne': return b(X[0] != X[1])
    if op == 'neg': return F.neg(X[0])
    if op == 'addc': return F.add(X[0], F.from_int(c))
    if op == 'mulc': return F.mul(X[0], F.from_int(c))
    if op == 'rsubc': return F.sub(F.from_int(c), X[0])
    if op == 'rdivc': return F.div(F.from_int(c), X[0])
    if op == 'and': return F.from_int(F.to_int(X[0]) & F.to_int(X[1]))
    if op == 'or': return F.from_int(F.to_int(X[0]) | F.to_int(X[1]))
    if op == 'xor': return F.from_int(F.to_int(X[0]) ^ F.to_int(X[1]))
    if op == 'inv': return F.from_int(F.to_int(X[0]) ^ (q - 1))
    if op == 'bits_rt': return X[0]
    if op == 'sum': return F.add(F.add(X[0], X[1]), X[2])
    if op == 'prod': return F.mul(F.mul(X[0], X[1]), X[2])
    if op == 'inprod': return F.add(F.mul(X[0], X[1]), F.mul(X[2], X[3]))
    if op == 'ifelse': return X[1] if F.to_int(X[0]) == 1 else X[2]
    if op == 'iszero': return b(F.is_zero(X[0]))
    if op == 'iszero_pub': return b(F.is_zero(X[0]))
    raise KeyError(op)


def apply_op(mpc, secfld, op, x, c):
    if op == 'add': return x[0] + x[1]
    if op == 'sub': return x[0] - x[1]
    if op == 'mul': return x[0] * x[1]
    if op == 'div': return x[0] / x[1]
    if op == 'pow': return x[0] ** c
    if op == 'eq': return x[0] == x[1]
    if op == 'ne': return x[0] != x[1]
    if op == 'neg': return -x[0]
    if op == 'addc': return x[0] + c
    if op == 'mulc': return c * x[0]
    if op == 'rsubc': return c - x[0]
    if op == 'rdivc': return c / x[0]
    if op == 'and': return x[0] & x[1]
    if op == 'or': return x[0] | x[1]
    if op == 'xor': return x[0] ^ x[1]
    if op == 'inv': return ~x[0]
    if op == 'bits_rt':
        bits = mpc.to_bits(x[0])
        r = mpc.from_bits(bits)
        if len(bits) > 1:
            bits.append(bits.pop(0))            # the caller goes on using its bit list (here: rotates it) right after the call
        return r
    if op == 'sum':
        a = list(x)
        r = mpc.sum(a)
        a.reverse(); a[0] = a[-1]
        return r
    if op == 'prod':
        a = list(x)
        r = mpc.prod(a)
        a.reverse(); a[0] = a[-1]
        return r
    if op == 'inprod':
        a, b = [x[0], x[2]], [x[1], x[3]]
        r = mpc.in_prod(a, b)
        a[0], b[1] = b[1], a[0]
        return r
    if op == 'ifelse': return mpc.if_else(x[0], x[1], x[2])
    if op == 'iszero': return mpc.is_zero(x[0])
    if op == 'iszero_pub': return mpc.is_zero_public(x[0])
    raise KeyError(op)


def run(shard, rec):
    budget_hits = [0]
    from vlib import env
    env.prepare()
    from vlib import sim
    from vlib.oracles import ref
    import asyncio
    sim.install()
    rng = random.Random(f"c04/{shard['seed']}/{shard['name']}")

    def make_program(fdesc, spec):
        async def program(mpc, pid):
            secfld = mpc.SecFld(**fdesc)
            base = secfld.subfield or secfld.field
            nodes = [mpc.input(secfld(v if pid == s else 0), senders=s) for s, v in spec['inputs']]
            pubs = {}
            for op, args, c in spec['steps']:
                r = apply_op(mpc, secfld, op, [nodes[i] for i in args], c)
                if op == 'iszero_pub':
                    nodes.append(secfld(int(bool(await r))))       # the public result re-enters the program as a constant
                else:
                    nodes.append(r)
            opened = await mpc.output(nodes)
            out = []
            for k, a in enumerate(opened):
                if k in pubs:
                    out.append(('pub', int(bool(await pubs[k]))))
                else:
                    out.append((type(a).__name__, type(a) is base, int(a.value) if base.ext_deg == 1 else int(a.value)))
            return out, [secfld.field.order, base.order, secfld.subfield is not None]
        return program

    def oracle_field(fdesc):
        # description of the requested field, independent of SecFld's own choice of modulus: take the modulus from the type itself
        return None

    def one_program(m, t, no_prss, fdesc, policy, sseed, spec_vals=None, case=None, exhaustive=None):
        # the secure type is constructed inside the world; the oracle field is built from the (sub)field the type reports
        holder = {}

        async def probe(mpc, pid):
            secfld = mpc.SecFld(**fdesc)
            base = secfld.subfield or secfld.field
            if pid == 0:
                holder['base'] = base
                holder['lifted'] = secfld.subfield is not None
            return True
        w0 = sim.World(m, t, no_prss, seed=sseed, policy='eager', clear_caches=True)
        w0.run(probe, cpu_seconds=60)
        if w0.ok_results() is None:
            return 'unsupported', w0
        return holder, w0

    if shard['kind'] == 'exh':
        m, t, no_prss = 1, 0, False
        cfgname = 'm1'
        fields = [f for f in FIELDS if f.get('order', 999) <= 11]
    else:
        m, t, no_prss = shard['cfg']
        cfgname = shard['name']
        fields = FIELDS
    for fdesc in fields:
        q_req = fdesc.get('order', 256)
        holder, w0 = one_program(m, t, no_prss, fdesc, 'eager', 1)
        if holder == 'unsupported':
            errs = w0.error_summaries()[:1] + [str(r) for r in w0.results() if r[0] == 'EXC'][:1]
            rec.count('field_config_unsupported')
            rec.seen('unsupported', f'{fdesc} at {cfgname}: {errs[:1]}')
            continue
        base = holder['base']
        F = ref.field_of(base)
        q = F.order
        char2 = F.p == 2
        prime = F.d == 1
        if q != q_req:
            rec.violation(f'{cfgname}: SecFld({fdesc}) works over a field of order {q}', {'mechanism': 'wrong-field-order'}, {'field': fdesc}, case=[cfgname, str(fdesc), 'order'])
            continue
        nprog = shard.get('per_field', 0)
        specs = []
        if shard['kind'] == 'exh':
            # all pairs for binary operators, all elements for unary ones, as single-step programs batched 12 steps per program
            steps_all = []
            for a in range(q):
                for b in range(q):
                    for op in ('add', 'sub', 'mul', 'div', 'eq', 'and', 'or', 'xor'):
                        if op == 'div' and b == 0:
                            continue
                        if op in ('and', 'or', 'xor') and not char2:
                            continue
                        steps_all.append((op, a, b, None))
                for op, cs in (('pow', [0, 1, 2, 3, -1, q - 1, q, q + 1]), ('inv', [None]), ('bits_rt', [None]), ('neg', [None]), ('iszero', [None]), ('iszero_pub', [None])):
                    for c in cs:
                        if op == 'pow' and c < 0 and a == 0:
                            continue
                        if op == 'inv' and not char2:
                            continue
                        if op == 'bits_rt' and not (char2 or prime):
                            continue
                        steps_all.append((op, a, None, c))
            for k in range(0, len(steps_all), 10):
                chunk = steps_all[k:k + 10]
                ins, steps = [], []
                for op, a, b, c in chunk:
                    ia = len(ins)
                    ins.append([0, a])
                    if b is not None:
                        ins.append([0, b])
                for op, a, b, c in chunk:
                    pass
                # rebuild with proper indices
                ins, steps, pos = [], [], 0
                for op, a, b, c in chunk:
                    ins.append([0, a])
                    if b is not None:
                        ins.append([0, b])
                nin = len(ins)
                pos = 0
                for op, a, b, c in chunk:
                    if b is not None:
                        steps.append([op, [pos, pos + 1], c])
                        pos += 2
                    else:
                        steps.append([op, [pos], c])
                        pos += 1
                spec = {'inputs': ins, 'steps': steps}
                vals = [F.from_int(v) for _, v in ins]
                for op, args, c in steps:
                    vals.append(ref_op(F, op, [vals[i] for i in args], c, q))
                specs.append((spec, vals))
        else:
            for _ in range(nprog):
                specs.append(gen(rng, F, q, char2, prime, m))
        for si, (spec, vals) in enumerate(specs):
            policy = rng.choice(sim.POLICIES)
            sseed = rng.randrange(1 << 30)
            case = [cfgname, str(fdesc), si, policy, sseed] if shard['kind'] != 'exh' else [cfgname, str(fdesc), si]
            if not rec.wants(case):
                continue
            w = sim.World(m, t, no_prss, seed=sseed, policy=policy, clear_caches=False).run(make_program(fdesc, spec), cpu_seconds=20 if q < 2 ** 64 else 900)      # measured: < 0.5 s / 31 s CPU on the unchanged tree (256-bit field, m = 7)
            rec.count('programs_run')
            if holder['lifted']:
                rec.count('lifted_programs_run')
            res = w.ok_results()
            what = f'{cfgname} SecFld({fdesc}){" lifted" if holder["lifted"] else ""} program {[s[0] for s in spec["steps"]][:8]}'
            wit = {'field': fdesc, 'spec': spec, 'policy': policy, 'sched_seed': sseed}
            feats = {'lifted': holder['lifted'], 'char2': char2, 'prime': prime}
            if res is None:
                errs = ' '.join(w.error_summaries()[:2]) + ' '.join(str(r) for r in w.results() if r[0] == 'EXC')
                ec = 'to_bits-unsupported-field' if 'Binary field or prime field required' in errs else ('step-limit' if w.status in ('STEP-LIMIT', 'CPU-LIMIT') else 'other')
                rec.violation(f'{what}: run did not complete {w.status} {errs[:200]}', dict(feats, mechanism='no-completion', error_class=ec,
                                                                                         has_bits_rt=any(st[0] == 'bits_rt' for st in spec['steps'])), wit, case=case)
                if w.status in ('STEP-LIMIT', 'CPU-LIMIT'):
                    budget_hits[0] += 1
                    if budget_hits[0] >= 5:
                        rec.note_side(f'{cfgname}: {budget_hits[0]} programs exhausted their step/CPU budget (all reported); the rest of this shard is not run')
                        return
                continue
            if any(r[0] != res[0][0] for r in res):
                rec.violation(f'{what}: parties obtained different values', dict(feats, mechanism='parties-disagree'), wit, case=case)
            out = res[0][0]
            nin = len(spec['inputs'])
            for k, o in enumerate(out):
                op = spec['steps'][k - nin][0] if k >= nin else 'input'
                rec.count('nodes_checked')
                exp = F.to_int(vals[k])
                if o[0] == 'pub':
                    got = o[1]
                else:
                    if not o[1]:
                        rec.violation(f'{what}: node {k} ({op}) is output as {o[0]}, not as an element of the requested field', dict(feats, mechanism='wrong-output-field', op=op), wit, case=case)
                        continue
                    got = o[2]
                if got != exp:
                    args = spec['steps'][k - nin][1] if k >= nin else []
                    rec.violation(f'{what}: node {k} {op}({[F.to_int(vals[i]) for i in args]}{", " + str(spec["steps"][k - nin][2]) if k >= nin and spec["steps"][k - nin][2] is not None else ""}) = {got}, field arithmetic gives {exp}',
                                  dict(feats, mechanism='wrong-value', op=op), wit, case=case)
            rec.case(case, nontrivial=any(s[0] in ('mul', 'div', 'pow', 'eq', 'ne', 'and', 'or', 'inv', 'bits_rt', 'prod', 'inprod', 'iszero', 'iszero_pub', 'rdivc') for s in spec['steps']),
                     sample={'config': cfgname, 'field': fdesc, 'lifted': holder['lifted'], 'steps': [s[0] for s in spec['steps']], 'values': [F.to_int(v) for v in vals][:8]} if si == 0 and q in (7, 256, 9) else None)
