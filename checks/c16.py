"""C16 — PRSS keys are shared exactly among each subset's members."""
import itertools
import random

PROPERTY = 'C16'
ENGINE = 'SIM'
LEVEL = 'exploration'
TECHNIQUE = 'runtime state monitor: after the real Runtime.start() completed on all parties (handshake bytes dribbled/chunked/reordered by the scheduler, injected connection refusals), the key tables of all m runtimes are compared by an omniscient oracle'
RULE = ('case = (m, t, schedule policy, schedule seed); non-trivial = t >= 1 (more than one subset); distinct by (m, t, schedule hash); '
        'oracle: every (m-t)-subset has one 16-byte key held by exactly its members, keys of different subsets differ, every t-coalition lacks >= 1 key')
EXHAUSTIVE = 'all (m,t) with 2t < m <= 7'
ASSUMPTIONS = ['SIM transport/loop assumptions as in C08; REALNET shard repeats the check over loopback TCP']
REQUIRE = {'any': {'worlds_started': 100, 'subsets_checked': 500, 'coalitions_checked': 500}}
LEVEL_TEXT = 'exploration: all party configurations up to m=7, 7 scheduler policies x seeds with 20% injected connection refusals; plus real TCP'
LEVEL_NOTE = 'trusted: vlib/sim.py; oracle reads only rt._prss_keys after start()'

CONFIGS = [(m, t) for m in range(1, 8) for t in range(0, (m + 1) // 2) if 2 * t < m]


def shards(tier, seed):
    out = [{'name': f'm{m}t{t}', 'm': m, 't': t, 'seeds': 4 if tier == 'quick' else 150} for (m, t) in CONFIGS]
    out.append({'name': 'realnet', 'kind': 'realnet', 'cfgs': [[2, 0], [3, 1], [5, 2], [4, 1]] if tier == 'quick' else [list(c) for c in CONFIGS if c[0] > 1]})
    return out


def judge(rts, m, t, rec, what, case):
    subsets = list(itertools.combinations(range(m), m - t))
    holders = {}
    for rt in rts:
        for S, k in rt._prss_keys.items():
            holders.setdefault(S, []).append((rt.pid, bytes(k)))
    ok = True

    def V(mech, text):
        nonlocal ok
        ok = False
        rec.violation(f'{what}: {text}', {'mechanism': mech}, {'case': case}, case=case)
    for S in subsets:
        rec.count('subsets_checked')
        hs = holders.get(S, [])
        pids = sorted(p for p, _ in hs)
        keys = {k for _, k in hs}
        if pids != list(S):
            V('wrong-holders', f'key for subset {S} held by parties {pids}')
        elif len(keys) != 1:
            V('key-disagreement', f'members of {S} hold {len(keys)} different keys')
        elif len(next(iter(keys))) != 16:
            V('key-length', f'key for {S} has {len(next(iter(keys)))} bytes')
    extra = [S for S in holders if S not in subsets]
    if extra:
        V('unknown-subset', f'keys stored for non-subsets {extra[:3]}')
    allkeys = [next(iter({k for _, k in holders[S]})) for S in subsets if S in holders and holders[S]]
    if len(set(allkeys)) != len(allkeys):
        V('key-reuse', 'two different subsets share a key')
    # every coalition of t parties lacks at least one key (the one of its complement)
    for C in itertools.combinations(range(m), t):
        rec.count('coalitions_checked')
        known = set()
        for rt in rts:
            if rt.pid in C:
                known |= {bytes(k) for k in rt._prss_keys.values()}
        if all(k in known for k in allkeys) and allkeys and t > 0:
            V('coalition-knows-all', f'coalition {C} holds every subset key')
    return ok


def run(shard, rec):
    from vlib import env
    env.prepare()
    from vlib import sim
    sim.install()
    rng = random.Random(f"c16/{shard['seed']}/{shard['name']}")

    async def program(mpc, pid):
        return pid
    if shard.get('kind') == 'realnet':
        from vlib import realnet
        for m, t in shard['cfgs']:
            case = ['realnet', m, t]
            if not rec.wants(case):
                continue
            rts, res, wire, err, errors = realnet.run_real(m, t, False, program, seed=rng.randrange(1 << 30), timeout=60)
            if err == 'watchdog':
                rec.inconclusive_because(f'REALNET watchdog m={m} t={t}')
                continue
            if err:
                rec.violation(f'REALNET m={m} t={t}: start/shutdown failed: {err}', {'mechanism': 'start-failed'}, {'case': case}, case=case)
                continue
            rec.count('worlds_started')
            judge(rts, m, t, rec, f'REALNET m={m} t={t}', case)
            rec.case(case, nontrivial=t >= 1, sample={'engine': 'REALNET', 'm': m, 't': t, 'subsets': len(list(itertools.combinations(range(m), m - t)))})
        return
    m, t = shard['m'], shard['t']
    for policy in sim.POLICIES:
        for s in range(shard['seeds']):
            sseed = rng.randrange(1 << 30)
            case = [m, t, policy, sseed]
            if not rec.wants(case):
                continue
            # how the runtimes arrive at threshold t: constructed with it, assigned before start(), or after an earlier session at another threshold
            others = [x for x in range(0, (m + 1) // 2) if 2 * x < m]
            hist = [None, ('assign', rng.choice(others)), ('session', rng.choice(others)), ('restart', t)][s % 4] if m > 1 else None
            w = sim.World(m, t, False, seed=sseed, policy=policy, refuse_prob=0.2, history=hist)
            w.run(program)
            rec.count('worlds_with_threshold_history', int(hist is not None))
            rec.count('worlds_started')
            if w.status != 'DONE' or any(r[0] != 'OK' for r in w.results()):
                rec.violation(f'm={m} t={t} {policy}: start()/shutdown() did not complete: {w.status} {w.error_summaries()[:2]}', {'mechanism': 'start-failed'}, {'case': case}, case=case)
                continue
            judge(w.rts, m, t, rec, f'm={m} t={t} policy {policy}', case)
            # the handshake must have been delivered in pieces at least sometimes
            chunks = sum(c.chunks for c in w.conns.values())
            rec.count('handshake_chunks', chunks)
            rec.case([m, t, w.sched_sig()], nontrivial=t >= 1,
                     sample={'m': m, 't': t, 'policy': policy, 'subsets': len(list(itertools.combinations(range(m), m - t))), 'chunks_delivered': chunks,
                             'keys_at_party0': len(w.rts[0]._prss_keys)} if policy == 'dribble' and s == 0 and m in (3, 5, 7) else None)
