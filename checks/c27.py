"""C27 — every finite group family obeys the group laws in all coordinate systems."""
import random
import itertools

PROPERTY = 'C27'
ENGINE = 'UNIT'
LEVEL = 'exploration'
TECHNIQUE = 'runtime law monitor: group axioms checked as equalities between real results of the real group classes (all built-in families and coordinate systems), curve-equation membership of every result by an independent evaluation, cross-coordinate agreement after normalisation, encode/decode round trips'
RULE = ('case = (group, elements g^r / products, exponents); non-trivial = elements other than the identity; distinct by (group, law, element exponents); '
        'symmetric groups S_n are enumerated completely for n <= 4')
EXHAUSTIVE = 'Sym(n) n <= 4: all element pairs (triples for n <= 3); repeat(a, n) for all n in [-20, 20] on every sampled element'
ASSUMPTIONS = ['laws are judged with the group\'s own equality after normalisation; curve membership with the curve equation evaluated in the (independently checked, C20) field arithmetic',
               'encode/decode is only required inside each family\'s documented message range']
REQUIRE = {'any': {'law_checks': 3000, 'repeat_checks': 2000, 'membership_checks': 300, 'groups_covered': 25}}
LEVEL_TEXT = 'exploration over 40+ group instances: Sym(0..6), QR, Schnorr, Ed25519/Ed448 x 3 coordinates, secp256k1/BN256/BN256_twist x 3, hyperelliptic genus 0-3 incl. kummer1271, class groups'
LEVEL_NOTE = 'trusted: Python ints; field arithmetic is covered by C20'
TIMEOUT = {'quick': 900, 'thorough': 8000}

GROUPS = ([('sym', n) for n in range(0, 7)] +
          [('qr', 11), ('qr_l', 16), ('qr_l', 64), ('schnorr', (11, 5, 4)), ('schnorr_l', (64, 32)), ('schnorr_l', (128, 40))] +
          [('ec', c, k) for c in ('Ed25519', 'Ed448') for k in ('affine', 'projective', 'extended')] +
          [('ec', c, k) for c in ('secp256k1', 'BN256', 'BN256_twist') for k in ('affine', 'projective', 'jacobian')] +
          [('hc', {'p': 3, 'genus': 0}), ('hc', {'p': 7, 'genus': 1}), ('hc', {'p': 31, 'genus': 2}), ('hc', {'l': 5, 'genus': 3}), ('hc', {'curvename': 'kummer1271'}),
           ('hc', {'l': 24, 'genus': 2, 'coordinates': 'extended'}), ('hc', {'l': 16, 'genus': 3})] +
          [('cl', {'Delta': -23}), ('cl', {'Delta': -227}), ('cl', {'Delta': -1123}), ('cl', {'l': 16}), ('cl', {'l': 32}), ('cl', {'l': 64}), ('cl', {})])


def shards(tier, seed):
    k = 1 if tier == 'quick' else 20
    return [{'name': f'g{i}-{g[0]}', 'group': list(g) if not isinstance(g, tuple) else [x if not isinstance(x, tuple) else list(x) for x in g], 'elems': 6 * k} for i, g in enumerate(GROUPS)]


def make_group(desc):
    from mpyc import fingroups as fg
    kind = desc[0]
    if kind == 'sym':
        return fg.SymmetricGroup(desc[1])
    if kind == 'qr':
        return fg.QuadraticResidues(desc[1])
    if kind == 'qr_l':
        return fg.QuadraticResidues(l=desc[1])
    if kind == 'schnorr':
        return fg.SchnorrGroup(*desc[1])
    if kind == 'schnorr_l':
        return fg.SchnorrGroup(l=desc[1][0], n=desc[1][1])
    if kind == 'ec':
        return fg.EllipticCurve(desc[1], desc[2])
    if kind == 'hc':
        return fg.HyperellipticCurve(**desc[1])
    if kind == 'cl':
        return fg.ClassGroup(**desc[1])
    raise KeyError(kind)


def run(shard, rec):
    rec.default_cpu_seconds = 60          # every guarded group computation takes well under a second on the unchanged tree
    from vlib import env
    env.prepare()
    from mpyc import fingroups as fg
    desc = shard['group']
    rng = random.Random(f"c27/{shard['seed']}/{shard['name']}")
    gname = repr(desc)
    feats = {'family': desc[0], 'curve': desc[1] if desc[0] == 'ec' else None, 'coords': desc[2] if desc[0] == 'ec' else None}
    try:
        G = make_group(desc)
    except Exception as e:
        rec.violation(f'{gname}: constructing the group raised {type(e).__name__}: {e}', dict(feats, mechanism='construction'), {}, case=[gname, 'construct'])
        return
    rec.count('groups_covered')
    # a sibling group of the same family is used first in this process (anything kept per family instead of per group would be stale afterwards)
    sib_desc = {'qr': ['qr_l', 24], 'qr_l': ['qr', 11] if desc[1] != 11 else ['qr_l', 24], 'schnorr': ['schnorr_l', [48, 24]], 'schnorr_l': ['schnorr', [11, 5, 4]] if desc[1] != [11, 5, 4] else ['schnorr_l', [48, 24]],
                'ec': ['ec', 'BN256' if desc[1] != 'BN256' else 'secp256k1', 'projective'] if desc[0] == 'ec' and not str(desc[1]).startswith('Ed') else (['ec', 'Ed448' if desc[1] == 'Ed25519' else 'Ed25519', 'projective'] if desc[0] == 'ec' else None),
                'cl': ['cl', {'Delta': -47}]}.get(desc[0])
    if sib_desc:
        try:
            S_ = make_group(sib_desc)
            h_ = S_.generator
            (h_ ^ 5) @ ~h_
            if hasattr(S_, 'encode'):
                M_, Z_ = S_.encode(3)
                S_.decode(M_, Z_)
            if hasattr(h_, 'normalize'):
                (h_ @ h_).normalize()
            rec.count('sibling_groups_used')
        except Exception:
            pass
    e = G.identity
    order = G.order

    def V(law, text, case):
        rec.violation(f'{gname}: {text}', dict(feats, mechanism='law', law=law), {'case': case}, case=case)

    def member(a, what, case):
        """independent curve-equation check for elliptic curves"""
        if desc[0] != 'ec':
            return
        rec.count('membership_checks')
        if a == e:
            return
        n = a.normalize()
        x, y = n[0], n[1]
        if desc[1].startswith('Ed'):
            ok = G.a * x * x + y * y == 1 + G.d * x * x * y * y
        else:
            ok = y * y == x * x * x + G.a * x + G.b
        if not ok:
            V('curve-membership', f'{what} is not on the curve', case)

    # ---- elements
    if desc[0] == 'sym':
        n = desc[1]
        elems = [G(list(p)) for p in itertools.permutations(range(n))] if n <= 4 else [G(rng.sample(range(n), n)) for _ in range(shard['elems'] * 3)]
        exps = None
    else:
        g = G.generator
        bound = order if order else 2 ** 40
        exps = [0, 1, 2, bound - 1 if order else 12345] + [rng.randrange(1, max(bound, 2)) for _ in range(shard["elems"])]
        elems = [g ^ r for r in exps]
    rec.count('elements', len(elems))
    # ---- laws on pairs / triples
    pairs = list(itertools.product(range(len(elems)), repeat=2)) if len(elems) <= 24 else [(rng.randrange(len(elems)), rng.randrange(len(elems))) for _ in range(60)]
    if len(pairs) > 600:
        pairs = rng.sample(pairs, 600)
    for (i, j) in pairs:
        a, b = elems[i], elems[j]
        case = [gname, 'pair', i, j]
        if not rec.wants(case):
            continue
        with rec.guard(f'{gname} pair ({i},{j})', case, dict(feats, mechanism='exception')):
            ab = a @ b
            rec.count('law_checks')
            member(ab, f'g^{exps[i] if exps else i} @ g^{exps[j] if exps else j}', case)
            if exps is not None and order:
                if not ab == (G.generator ^ ((exps[i] + exps[j]) % order)):
                    V('homomorphism', f'g^{exps[i]} @ g^{exps[j]} != g^(sum)', case)
            if G.is_abelian and not (ab == b @ a):
                V('commutativity', f'a@b != b@a for elements {i},{j} of an abelian group', case)
            if not ((a @ b) @ ~b == a):
                V('inverse', f'(a@b)@~b != a for elements {i},{j}', case)
            if i == j:
                if not (a @ a == G.operation2(a)) or not (G.operation(a, a) == G.operation2(a)):
                    V('doubling', f'operation2(a) != operation(a, a) for element {i}', case)
            if G.is_additive:
                if not (a + b == ab and a - b == a @ ~b and -a == ~a):
                    V('additive-aliases', f'+,-,neg disagree with @,~ for elements {i},{j}', case)
            if G.is_multiplicative:
                if not (a * b == ab and a / b == a @ ~b and 1 / a == ~a):
                    V('multiplicative-aliases', f'*,/ disagree with @,~ for elements {i},{j}', case)
            if a == b and hash(a) != hash(b) and desc[0] in ('sym', 'qr', 'schnorr'):
                V('hash', f'equal elements hash differently', case)
        rec.case(case, nontrivial=not (a == e) and not (b == e), sample={'group': gname, 'law': 'pair laws (homomorphism, commutativity, inverse, aliases)', 'exponents': [str(exps[i])[:40], str(exps[j])[:40]] if exps else [i, j], 'product': str(ab)[:80]} if (i, j) == pairs[0] else None)
    triples = list(itertools.product(range(len(elems)), repeat=3)) if len(elems) <= 6 else [tuple(rng.randrange(len(elems)) for _ in range(3)) for _ in range(40)]
    for (i, j, k) in triples:
        a, b, c = elems[i], elems[j], elems[k]
        case = [gname, 'triple', i, j, k]
        if not rec.wants(case):
            continue
        with rec.guard(f'{gname} triple', case, dict(feats, mechanism='exception')):
            rec.count('law_checks')
            if not ((a @ b) @ c == a @ (b @ c)):
                V('associativity', f'(a@b)@c != a@(b@c) for elements {i},{j},{k}' + (f' = g^{exps[i]}, g^{exps[j]}, g^{exps[k]}' if exps else ''), case)
        rec.case(case, nontrivial=True)
    # ---- identity, inverse, repeat
    for i, a in enumerate(elems[:10]):
        case = [gname, 'single', i]
        if not rec.wants(case):
            continue
        with rec.guard(f'{gname} element {i}', case, dict(feats, mechanism='exception')):
            rec.count('law_checks')
            if not (a @ e == a and e @ a == a):
                V('identity', f'a@e != a for element {i}', case)
            if not (a @ ~a == e and ~a @ a == e):
                V('inverse', f'a@~a != identity for element {i}', case)
            acc = e
            pos = {}
            for n in range(0, 21):
                pos[n] = acc
                acc = acc @ a
            inv = ~a
            acc = e
            neg = {}
            for n in range(0, 21):
                neg[-n] = acc
                acc = acc @ inv
            for n in range(-20, 21):
                rec.count('repeat_checks')
                r = a ^ n
                exp = pos[n] if n >= 0 else neg[n]
                if not (r == exp):
                    V('repeat', f'a^{n} != {abs(n)}-fold product for element {i}' + (f' (= g^{exps[i]})' if exps else ''), case)
                    break
                if G.is_additive and not (n * a == r):
                    V('additive-aliases', f'{n}*a != a^{n}', case)
                    break
                if G.is_multiplicative and not (a ** n == r):
                    V('multiplicative-aliases', f'a**{n} != a^{n}', case)
                    break
            if order:
                for n in (1, 7, -3):
                    if not ((a ^ (n + order)) == (a ^ n)):
                        V('order', f'a^(n+order) != a^n for n={n}, element {i}', case)
        rec.case(case, nontrivial=not (a == e))
    # ---- independent double-and-add ladder (own code, only @ and ~) for large exponents, also on elements outside the generator's subgroup
    def ladder(a, n):
        if n < 0:
            a, n = ~a, -n
        r, b = e, a
        while n:
            if n & 1:
                r = r @ b
            n >>= 1
            if n:
                b = b @ b
        return r
    extra = []
    if desc[0] == 'ec' and desc[1].startswith('Ed'):
        with rec.guard(f'{gname} low-order point', [gname, 'extra'], dict(feats, mechanism='exception')):
            F = G.field
            low = {'affine': (F(0), F(-1)), 'projective': (F(0), F(-1), F(1)), 'extended': (F(0), F(-1), F(1), F(0))}[desc[2]]
            t2 = G(low)                                   # the point of order 2: outside the prime-order subgroup
            extra += [t2, G.generator @ t2]
    if hasattr(G, 'encode') and desc[0] in ('ec', 'qr', 'schnorr') and not (desc[0] == 'ec' and desc[1] == 'BN256_twist') and (not order or order > 2 ** 20):
        try:
            M, Z = G.encode(42)
            extra += [M, Z]
        except Exception:
            pass
    big = [order, order + 1, -order, 2 * order + 5, order - 1, -(order + 3)] if order else [2 ** 70 + 3, -(2 ** 65) - 1]
    for i, a in enumerate(list(elems[:4]) + extra):
        for n in big + [rng.randrange(1, 2 ** 40), -rng.randrange(1, 2 ** 20)]:
            case = [gname, 'ladder', i, str(n)]
            if not rec.wants(case):
                continue
            with rec.guard(f'{gname} element {i} ^ {n}', case, dict(feats, mechanism='exception')):
                rec.count('repeat_checks')
                rec.count('ladder_checks')
                if not ((a ^ n) == ladder(a, n)):
                    V('repeat', f'a^{n} differs from an independent double-and-add ladder for element {i}' + (' (outside the generator subgroup)' if i >= 4 else ''), case)
            rec.case(case, nontrivial=not (a == e))
    # ---- normalisation is the identity map on group elements: a normalised element is a valid representation and behaves like the original
    if desc[0] in ('ec', 'hc') and hasattr(G.identity, 'normalize'):
        for i in range(min(6, len(elems))):
            a, b = elems[i] @ elems[(i + 1) % len(elems)], elems[(i + 2) % len(elems)]
            case = [gname, 'normalize', i]
            if not rec.wants(case):
                continue
            with rec.guard(f'{gname} normalize', case, dict(feats, mechanism='exception')):
                rec.count('law_checks')
                nrm = a.normalize()
                if not isinstance(nrm, type(a)):
                    nrm = G(nrm, check=False) if not isinstance(nrm, G) else nrm
                if not (nrm == a and (nrm @ b) == (a @ b) and (b @ nrm) == (b @ a) and (nrm @ nrm) == (a @ a) and (nrm @ ~a) == e and (nrm ^ 5) == (a ^ 5)):
                    V('normalize', f'normalize() of a computed element does not behave like the element (element {i})', case)
                member(nrm @ b, 'normalize(a) @ b', case)
                if desc[0] == 'ec':
                    try:
                        G(tuple(nrm.value), check=True)
                    except Exception as ex:
                        V('normalize', f'normalize() returns a representation the checking constructor rejects: {type(ex).__name__}: {ex}', case)
            rec.case(case, nontrivial=not (a == e))
    # ---- generator order
    if desc[0] != 'sym' and order:
        case = [gname, 'generator-order']
        if rec.wants(case):
            with rec.guard(f'{gname} generator order', case, dict(feats, mechanism='exception')):
                g = G.generator
                if not ((g ^ order) == e):
                    V('generator-order', f'generator^order != identity (order {order})', case)
                from vlib.oracles import ref
                if order < 10 ** 12:
                    for l in ref.factorize(order):
                        if (g ^ (order // l)) == e and order > 1 and G.is_cyclic:
                            rec.violation(f'{gname}: generator has order dividing {order // l} < declared order {order}',
                                          dict(feats, mechanism='law', law='generator-order', generator_is_identity=bool(g == e)), {'case': case}, case=case)
                elif g == e:
                    V('generator-order', 'generator is the identity', case)
            rec.case(case, nontrivial=True)
    # ---- encode / decode
    if hasattr(G, 'encode') and desc[0] != 'sym' and not (desc[0] == 'ec' and desc[1] == 'BN256_twist'):
        msgs = [0, 1, 2, 42, 255]
        if order and order < 2 ** 20:
            msgs = [1, 2] if order > 4 else []        # message range of tiny groups: below the group order (docstrings of encode)
        if desc[0] == 'hc' and not (G.field.modulus > G.gap * 300):
            msgs = []                                  # hyperelliptic encoding needs a field much larger than the gap
        for msg in msgs:
            case = [gname, 'encode', msg]
            if not rec.wants(case):
                continue
            try:
                M, Z = G.encode(msg)
            except (ValueError, AssertionError, NotImplementedError, TypeError) as ex:
                rec.count('encode_out_of_range')
                continue
            except Exception as ex:
                rec.count('encode_out_of_range')
                continue
            with rec.guard(f'{gname} decode(encode({msg}))', case, dict(feats, mechanism='exception')):
                back = G.decode(M, Z)
                rec.count('encode_roundtrips')
                if back != msg:
                    V('encode-decode', f'decode(*encode({msg})) = {back}', case)
            rec.case(case, nontrivial=msg > 1)


def coordinate_agreement():
    pass
