"""C33 — secure random functions stay in range and are uniform."""
import sys
import math
import heapq
import random
import itertools
import collections
from fractions import Fraction as Fr

PROPERTY = 'C33'
ENGINE = 'SIM'
LEVEL = 'exploration'
TECHNIQUE = 'runtime monitoring with enumerated randomness: at m=1 Runtime.random_bits is replaced by a tape reader and the real mpyc.random functions are run once per explored tape (best-first by probability mass); outcome masses give exact probability intervals; plus range/shape contracts on every draw (m=1 and SIM) and chi-square tests on real-randomness draws for rejection-heavy functions'
RULE = ('case = (function, parameters, random tape) for uniformity; (configuration, function, parameters, draw) for range/shape; '
        'non-trivial = the function consumed >= 1 random bit; distinct by (function, parameters, tape); uniformity verdict: every outcome probability interval [mass, mass + unexplored] contains the documented probability')
EXHAUSTIVE = 'all random tapes up to the exploration budget (unexplored probability mass reported per function; < 2^-12 for the non-rejection functions)'
ASSUMPTIONS = ['random_bits delivers independent uniform bits (that is the property\'s own premise)', 'the tape only feeds draws issued from mpyc/random.py',
               'chi-square: threshold df + 12*sqrt(2 df) + 40 (alpha far below 1e-9)']
REQUIRE = {'any': {'tape_runs': 3000, 'functions_with_exact_uniformity': 12, 'range_shape_draws': 400}}
LEVEL_TEXT = 'exploration: exact (not statistical) uniformity by tape enumeration for 20 function/parameter combinations at m=1; range and shape for all functions at m=1 and (3,1),(2,0); chi-square for derangement/sample(range)'
LEVEL_NOTE = 'trusted: the tape reader; Fractions'
TIMEOUT = {'quick': 900, 'thorough': 10000}

from vlib.runner import config_name


class NeedMoreBits(Exception):
    pass


def shards(tier, seed):
    big = tier == 'thorough'
    exact = ['randbelow3', 'randbelow5', 'randbelow6', 'randbelow7', 'randbelow12', 'unit3', 'unit5', 'unit6', 'randrange', 'randint', 'choice4', 'choice3sec', 'perm3', 'shuffle3', 'sample_list',
             'choices_w', 'choices_cw', 'getrandbits3', 'random_fxp', 'uniform_fxp', 'randbelow_fld', 'derangement3', 'sample_range', 'perm4', 'derangement4', 'randbelow33', 'unit11']
    out = [{'name': f'exact-{e}', 'kind': 'exact', 'fn': e, 'budget': 2500 if not big else 12000} for e in exact]
    out.append({'name': 'range-m1', 'kind': 'range', 'cfg': [1, 0, False], 'reps': 40 if not big else 400})
    out.append({'name': 'range-m3t1', 'kind': 'range', 'cfg': [3, 1, False], 'reps': 6 if not big else 60})
    out.append({'name': 'range-m2t0np', 'kind': 'range', 'cfg': [2, 0, True], 'reps': 6 if not big else 60})
    out.append({'name': 'chi2-derangement', 'kind': 'chi2', 'fn': 'derangement4', 'N': 4000 if not big else 30000})
    out.append({'name': 'chi2-sample-range', 'kind': 'chi2', 'fn': 'sample_range', 'N': 4000 if not big else 30000})
    return out


def catalogue(mpc):
    """name -> (thunk returning secure result(s), decoder of opened value -> hashable outcome, expected distribution dict outcome->Fraction or ('uniform', set))"""
    R = mpc.random
    secint = mpc.SecInt(8)
    secfxp = mpc.SecFxp(8, 4)
    secfld = mpc.SecFld(7)
    out = lambda x: mpc.run(mpc.output(x))
    cat = {}

    def uni(s):
        s = list(s)
        return {o: Fr(1, len(s)) for o in s}
    for n in (3, 5, 6, 7, 12, 33):
        cat[f'randbelow{n}'] = (lambda n=n: R._randbelow(secint, n), lambda v: int(v), uni(range(n)))
    for n in (3, 5, 6, 11):
        cat[f'unit{n}'] = (lambda n=n: R.random_unit_vector(secint, n), lambda v: tuple(int(a) for a in v), uni(tuple(int(i == j) for i in range(n)) for j in range(n)))
    cat['randrange'] = (lambda: R.randrange(secint, 3, 12, 2), int, uni(range(3, 12, 2)))
    cat['randint'] = (lambda: R.randint(secint, -2, 3), int, uni(range(-2, 4)))
    cat['choice4'] = (lambda: R.choice(secint, [10, 20, 30, 40]), int, uni([10, 20, 30, 40]))
    cat['choice3sec'] = (lambda: R.choice(secint, [secint(5), secint(-7), 9]), int, uni([5, -7, 9]))
    cat['perm3'] = (lambda: R.random_permutation(secint, 3), lambda v: tuple(int(a) for a in v), uni(itertools.permutations(range(3))))
    cat['perm4'] = (lambda: R.random_permutation(secint, 4), lambda v: tuple(int(a) for a in v), uni(itertools.permutations(range(4))))

    def shuffle3():
        x = [secint(4), secint(5), secint(6)]
        R.shuffle(secint, x)
        return x
    cat['shuffle3'] = (shuffle3, lambda v: tuple(int(a) for a in v), uni(itertools.permutations([4, 5, 6])))
    cat['sample_list'] = (lambda: R.sample(secint, [1, 2, 3, 4], 2), lambda v: tuple(int(a) for a in v), uni(itertools.permutations([1, 2, 3, 4], 2)))
    cat['sample_range'] = (lambda: R.sample(secint, range(4), 2), lambda v: tuple(int(a) for a in v), uni(itertools.permutations(range(4), 2)))
    cat['choices_w'] = (lambda: R.choices(secint, [7, 8, 9], weights=[1, 2, 1], k=1), lambda v: int(v[0]), {7: Fr(1, 4), 8: Fr(1, 2), 9: Fr(1, 4)})
    cat['choices_cw'] = (lambda: R.choices(secint, [7, 8, 9], cum_weights=[2, 3, 6], k=1), lambda v: int(v[0]), {7: Fr(1, 3), 8: Fr(1, 6), 9: Fr(1, 2)})
    cat['getrandbits3'] = (lambda: R.getrandbits(secint, 3), int, uni(range(8)))
    cat['random_fxp'] = (lambda: R.random(secfxp), lambda v: Fr(v), uni(Fr(i, 16) for i in range(16)))
    cat['uniform_fxp'] = (lambda: R.uniform(secfxp, 1.0, 1.75), lambda v: Fr(v), uni(Fr(16 + i, 16) for i in range(12)))
    cat['randbelow_fld'] = (lambda: R._randbelow(secfld, 5), int, uni(range(5)))
    der3 = [p for p in itertools.permutations(range(3)) if all(p[i] != i for i in range(3))]
    der4 = [p for p in itertools.permutations(range(4)) if all(p[i] != i for i in range(4))]
    cat['derangement3'] = (lambda: R.random_derangement(secint, 3), lambda v: tuple(int(a) for a in v), uni(der3))
    cat['derangement4'] = (lambda: R.random_derangement(secint, 4), lambda v: tuple(int(a) for a in v), uni(der4))
    return cat, out


def run(shard, rec):
    from vlib import env
    env.prepare()
    from vlib import sim
    ns = sim.install()
    rng = random.Random(f"c33/{shard['seed']}/{shard['name']}")
    kind = shard['kind']
    if kind in ('exact', 'chi2'):
        mpc = ns.default_rt
        sim.CUR.set(mpc)
        cat, out = catalogue(mpc)
        thunk, decode, dist = cat[shard['fn']]
        fn = shard['fn']
        if kind == 'chi2':
            cnt = collections.Counter()
            N = shard['N']
            for _ in range(N):
                cnt[decode(out(thunk()))] += 1
                rec.count('chi2_draws')
            outside = [o for o in cnt if o not in dist]
            if outside:
                rec.violation(f'{fn}: outcome {outside[0]} is outside the documented range', {'mechanism': 'outcome-outside-range', 'fn': fn}, {'counts': dict(list(cnt.items())[:10])}, case=[fn, 'chi2'])
            chi = sum((cnt.get(o, 0) - N * float(p)) ** 2 / (N * float(p)) for o, p in dist.items())
            df = len(dist) - 1
            if chi > df + 12 * math.sqrt(2 * df) + 40:
                rec.violation(f'{fn}: chi-square {chi:.0f} with {df} degrees of freedom over {N} draws', {'mechanism': 'not-uniform-chi2', 'fn': fn}, {'counts': sorted(cnt.items(), key=repr)[:20]}, case=[fn, 'chi2'])
            rec.case([fn, 'chi2'], nontrivial=True, sample={'fn': fn, 'draws': N, 'chi2': round(chi, 1), 'df': df, 'outcomes_seen': len(cnt)})
            rec.case([fn, 'chi2-b'], nontrivial=True)
            rec.count('tape_runs', 0)
            return
        orig = mpc.random_bits
        state = {'tape': (), 'pos': 0}

        def rb(sftype, n, signed=False):
            if not sys._getframe(1).f_code.co_filename.endswith('mpyc/random.py'):
                return orig(sftype, n, signed)
            t = state['tape']
            if state['pos'] + n > len(t):
                raise NeedMoreBits(state['pos'] + n - len(t))
            bits = t[state['pos']:state['pos'] + n]
            state['pos'] += n
            if signed:
                bits = [2 * b - 1 for b in bits]
            return [sftype(b) for b in bits]
        mpc.random_bits = rb
        mass = collections.defaultdict(Fr)
        unexplored = Fr(0)
        runs = 0
        heap = [(0, ())]          # (tape length, tape): shortest tapes (largest mass) first
        try:
            while heap and runs < shard['budget']:
                ln, tape = heapq.heappop(heap)
                state['tape'], state['pos'] = tape, 0
                runs += 1
                rec.count('tape_runs')
                try:
                    o = decode(out(thunk()))
                except NeedMoreBits as e:
                    need = e.args[0]
                    if need > 12:
                        unexplored += Fr(1, 2 ** ln)
                        continue
                    for ext in range(2 ** need):
                        heapq.heappush(heap, (ln + need, tape + tuple((ext >> i) & 1 for i in range(need))))
                    continue
                except Exception as e:
                    rec.violation(f'{fn}: tape {tape} raised {type(e).__name__}: {e}', {'mechanism': 'exception', 'fn': fn}, {'tape': tape}, case=[fn, list(tape)])
                    continue
                if state['pos'] != len(tape):
                    rec.inconclusive_because(f'{fn}: completed run left {len(tape) - state["pos"]} tape bits unused')
                mass[o] += Fr(1, 2 ** ln)
                rec.case([fn, list(tape)], nontrivial=ln > 0, sample={'fn': fn, 'tape': list(tape), 'outcome': str(o)} if runs in (5, 50) else None)
            for ln, tape in heap:
                unexplored += Fr(1, 2 ** ln)
        finally:
            mpc.random_bits = orig
        total = sum(mass.values()) + unexplored
        if total != 1:
            rec.inconclusive_because(f'{fn}: explored mass + remainder = {float(total)} != 1 (tape accounting)')
        bad = None
        for o in mass:
            if o not in dist:
                bad = f'outcome {o} (mass {float(mass[o]):.4g}) is outside the documented range'
                break
        if not bad:
            for o, p in dist.items():
                lo, hi = mass.get(o, Fr(0)), mass.get(o, Fr(0)) + unexplored
                if not (lo <= p <= hi):
                    bad = f'outcome {o}: probability lies in [{float(lo):.6f}, {float(hi):.6f}], documented {float(p):.6f} (unexplored mass {float(unexplored):.2e}, {runs} runs)'
                    break
        if bad:
            rec.violation(f'{fn}: {bad}', {'mechanism': 'not-uniform-exact', 'fn': fn}, {'masses': {str(k): str(v) for k, v in list(mass.items())[:12]}, 'unexplored': str(unexplored)}, case=[fn, 'verdict'])
        elif unexplored <= Fr(1, 4):
            rec.count('functions_with_exact_uniformity')
        rec.seen('unexplored_mass', f'{fn}: {float(unexplored):.3e} after {runs} runs, {len(mass)} outcomes')
        return
    # ---- range / shape contracts ---------------------------------------------------------------------------
    m, t, no_prss = shard['cfg']

    async def program(mpc, pid):
        R = mpc.random
        secint, secfxp, secfld = mpc.SecInt(16), mpc.SecFxp(16, 8), mpc.SecFld(101)
        res = []

        async def o(x):
            if isinstance(x, (int, float)):
                return x                      # degenerate requests (one possible outcome) may return a public Python value
            return await mpc.output(x)
        res.append(('randrange(5)', await o(R.randrange(secint, 5))))
        res.append(('randrange(-7,20,3)', await o(R.randrange(secint, -7, 20, 3))))
        res.append(('randrange(10,0,-2)', await o(R.randrange(secint, 10, 0, -2))))
        res.append(('randint(-3,3)', await o(R.randint(secint, -3, 3))))
        res.append(('randint(4,4)', await o(R.randint(secint, 4, 4))))
        res.append(('choice', await o(R.choice(secint, [3, 1, 4, 1, 5]))))
        res.append(('choices_k3', await o(R.choices(secint, [3, 1, 4], k=3))))
        res.append(('choices_w', await o(R.choices(secint, [3, 1, 4], weights=[5, 0, 1], k=4))))
        res.append(('sample_list', await o(R.sample(secint, [3, 1, 4, 1, 5, 9], 3))))
        res.append(('sample_range', await o(R.sample(secint, range(10, 40, 5), 4))))
        res.append(('sample_k0', await o(R.sample(secint, [1, 2], 0)) if False else []))
        x = [secint(v) for v in (7, 8, 9, 10)]
        R.shuffle(secint, x)
        res.append(('shuffle', await o(x)))
        res.append(('perm5', await o(R.random_permutation(secint, 5))))
        res.append(('perm_list', await o(R.random_permutation(secint, [2, 2, 3]))))
        res.append(('derangement5', await o(R.random_derangement(secint, 5))))
        res.append(('unit7', await o(R.random_unit_vector(secint, 7))))
        res.append(('unit1', await o(R.random_unit_vector(secint, 1))))
        res.append(('getrandbits5', await o(R.getrandbits(secint, 5))))
        res.append(('getrandbits0', await o(R.getrandbits(secint, 0)) if False else 0))
        res.append(('random_fxp', await o(R.random(secfxp))))
        res.append(('uniform(-1.5,2.25)', await o(R.uniform(secfxp, -1.5, 2.25))))
        res.append(('uniform(2,1)', await o(R.uniform(secfxp, 2.0, 1.0))))
        res.append(('randrange_fld', int(await o(R.randrange(secfld, 50)))))
        res.append(('randbelow_fld_order', int(await o(R._randbelow(secfld, 101)))))
        recs = [[secint(1), secint(10)], [secint(2), secint(20)], [secint(3), secint(30)]]
        R.shuffle(secint, recs)
        res.append(('shuffle_records', [await o(r) for r in recs]))
        # sequence arguments belong to the caller, who goes on using them: the draw is from the sequence as passed
        def spoil(l):
            l[:] = [secint(1000 + i) if isinstance(a, secint) else 1000 + i for i, a in enumerate(l)][::-1]
        a1 = [3, 1, 4, 1, 5]
        r = R.choice(secint, a1); spoil(a1)
        res.append(('choice', await o(r)))
        a2 = [secint(3), secint(1), secint(4)]
        r = R.choice(secint, a2); spoil(a2)
        res.append(('choice', await o(r)))
        a3, w3 = [3, 1, 4], [5, 0, 1]
        r = R.choices(secint, a3, weights=w3, k=4); spoil(a3); w3[:] = [0, 1, 0]
        res.append(('choices_w', await o(r)))
        a4 = [3, 1, 4, 1, 5, 9]
        r = R.sample(secint, a4, 3); spoil(a4)
        res.append(('sample_list', await o(r)))
        a5 = [secint(v) for v in (3, 1, 4, 1, 5, 9)]
        r = R.sample(secint, a5, 3); spoil(a5)
        res.append(('sample_list', await o(r)))
        a6 = [secint(2), secint(2), secint(3)]
        r = R.random_permutation(secint, a6); spoil(a6)
        res.append(('perm_list', await o(r)))
        a7 = [secint(v) for v in range(5)]
        r = R.random_derangement(secint, a7); spoil(a7)
        res.append(('derangement5', await o(r)))
        a8 = list(range(5))
        r = R.random_derangement(secint, a8); spoil(a8)
        res.append(('derangement5', await o(r)))
        res.append(('caller_lists_reused', 8))
        # several draws pending at once (nothing awaited in between), results taken in another order
        pend = [('sample_range', R.sample(secint, range(10, 40, 5), 4)), ('sample_range', R.sample(secint, range(10, 40, 5), 4)),
                ('derangement5', R.random_derangement(secint, 5)), ('randrange(-7,20,3)', R.randrange(secint, -7, 20, 3)),
                ('sample_list', R.sample(secint, [3, 1, 4, 1, 5, 9], 3)), ('perm5', R.random_permutation(secint, 5)), ('unit7', R.random_unit_vector(secint, 7)),
                ('sample_range', R.sample(secint, range(10, 40, 5), 4))]
        got = [None] * len(pend)
        for j in (5, 0, 7, 2, 1, 6, 3, 4):
            got[j] = await o(pend[j][1])
        for (name, _), v in zip(pend, got):
            res.append((name, v))
        res.append(('concurrent_draws', len(pend)))
        return res
    for rep in range(shard['reps']):
        case = [shard['name'], rep]
        if not rec.wants(case):
            continue
        w = sim.World(m, t, no_prss, seed=rng.randrange(1 << 30), policy=rng.choice(sim.POLICIES)).run(program)
        res = w.ok_results()
        if res is None:
            rec.violation(f'{shard["name"]}: run did not complete {w.status} {[r for r in w.results() if r[0] == "EXC"][:1]} {w.error_summaries()[:1]}', {'mechanism': 'no-completion'}, {'case': case}, case=case)
            continue
        if any(r != res[0] for r in res):
            rec.violation(f'{shard["name"]}: parties opened different random values', {'mechanism': 'parties-disagree'}, {'case': case}, case=case)
        for name, v in res[0]:
            if name in ('caller_lists_reused', 'concurrent_draws'):
                rec.count(name, v)
                continue
            rec.count('range_shape_draws')
            ok = {
                'randrange(5)': lambda: v in range(5), 'randrange(-7,20,3)': lambda: v in range(-7, 20, 3), 'randrange(10,0,-2)': lambda: v in range(10, 0, -2),
                'randint(-3,3)': lambda: v in range(-3, 4), 'randint(4,4)': lambda: v == 4, 'choice': lambda: v in (3, 1, 4, 5),
                'choices_k3': lambda: len(v) == 3 and all(a in (3, 1, 4) for a in v), 'choices_w': lambda: len(v) == 4 and all(a in (3, 4) for a in v),
                'sample_list': lambda: len(v) == 3 and not (collections.Counter(v) - collections.Counter([3, 1, 4, 1, 5, 9])),
                'sample_range': lambda: len(v) == 4 and len(set(v)) == 4 and all(a in range(10, 40, 5) for a in v), 'sample_k0': lambda: v == [],
                'shuffle': lambda: sorted(v) == [7, 8, 9, 10], 'perm5': lambda: sorted(v) == [0, 1, 2, 3, 4], 'perm_list': lambda: sorted(v) == [2, 2, 3],
                'derangement5': lambda: sorted(v) == [0, 1, 2, 3, 4] and all(v[i] != i for i in range(5)), 'unit7': lambda: len(v) == 7 and sorted(v) == [0] * 6 + [1],
                'unit1': lambda: v == [1], 'getrandbits5': lambda: 0 <= v < 32, 'getrandbits0': lambda: v == 0, 'random_fxp': lambda: 0 <= v < 1 and (v * 256) == int(v * 256),
                'uniform(-1.5,2.25)': lambda: -1.5 <= v <= 2.25, 'uniform(2,1)': lambda: 1.0 <= v <= 2.0, 'randrange_fld': lambda: 0 <= v < 50, 'randbelow_fld_order': lambda: 0 <= v < 101,
                'shuffle_records': lambda: sorted(map(tuple, v)) == [(1, 10), (2, 20), (3, 30)],
            }[name]()
            if not ok:
                rec.violation(f'{shard["name"]}: {name} returned {v}, outside its documented shape/range', {'mechanism': 'range-or-shape', 'fn': name}, {'case': case}, case=case)
        rec.case(case, nontrivial=True, sample={'config': shard['name'], 'draws': [(n, v) for n, v in res[0][:6]]} if rep == 0 else None)
    rec.count('tape_runs', 0)
