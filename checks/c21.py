"""C21 — field square roots and quadratic-residue tests are correct."""
import random
import signal

PROPERTY = 'C21'
ENGINE = 'UNIT'
LEVEL = 'exploration'
TECHNIQUE = 'runtime oracle monitor on real is_sqr/sqrt/sqrt(INV=True): brute-force set of squares for small fields, Euler criterion by an independent field for large ones'
RULE = ('case = (field, element); small fields: every element; large: random + boundary; non-trivial = element not in {0,1}; '
        'oracle: brute-force square set (order <= 4096) or independent Euler criterion; sqrt judged only by squaring back')
EXHAUSTIVE = 'every element of 22 fields of order <= 4096 (p = 1 and 3 mod 4, q = 1 and 3 mod 4, binary)'
ASSUMPTIONS = ['oracle GF(p^d) arithmetic (vlib/oracles/ref.py)']
REQUIRE = {'any': {'is_sqr_checked': 3000, 'sqrt_checked': 1500, 'inv_sqrt_checked': 1000}}
LEVEL_TEXT = 'exploration: exhaustive over all elements of small fields of every residue class, random over large primes incl. high 2-adicity'
LEVEL_NOTE = 'trusted: vlib/oracles/ref.py'

SMALL = [('p', 2), ('p', 3), ('p', 5), ('p', 7), ('p', 11), ('p', 13), ('p', 17), ('p', 29), ('p', 37), ('p', 41), ('p', 101), ('p', 257), ('p', 193),
         ('x', 3, 'x^2+1'), ('x', 3, 'x^3+2x+1'), ('x', 5, 'x^2+2'), ('x', 7, 'x^2+1'), ('x', 11, 'x^2+1'), ('x', 3, 'x^4+x+2'), ('x', 5, 'x^3+3x+2'),
         ('x', 2, 'x^2+x+1'), ('x', 2, 'x^3+x+1'), ('x', 2, 'x^8+x^4+x^3+x+1'), ('x', 2, 'x^5+x^2+1'), ('p', 97), ('p', 7681)]
LARGE = [('p', 2**61 - 1), ('p', 2**255 - 19), ('p', 2**127 - 1), ('p', 2**64 - 2**32 + 1), ('p', 2**89 - 1), ('p', 18446744069414584321),
         ('p', 2**224 - 2**96 + 1), ('p', 1000003), ('p', 998244353), ('x', 2, 'x^64+x^4+x^3+x+1'), ('x', 3, 'x^10+2x^6+2x^5+2x^4+x+2'), ('x', 65537, 'x^2+3')]


def shards(tier, seed):
    out = [{'name': f'small-{i}', 'field': list(f), 'mode': 'all'} for i, f in enumerate(SMALL)]
    out += [{'name': f'large-{i}', 'field': list(f), 'mode': 'random', 'n': 60 if tier == 'quick' else 20000} for i, f in enumerate(LARGE)]
    return out


def run(shard, rec):
    from vlib import env
    env.prepare()
    from checks.c12 import make_field
    from checks.c20 import RefFieldFast
    from vlib.oracles import ref
    try:
        field = make_field(shard['field'])
    except ValueError as e:
        rec.inconclusive_because(f'harness: field {shard["field"]} rejected: {e}')
        return
    q = field.order
    if field.ext_deg > 1 and field.ext_deg <= 6 and q < 10 ** 6:
        # warm-up in sibling fields: same order, other irreducible moduli (per-field precomputations must not be shared between them)
        from mpyc import finfields, gfpx
        P = gfpx.GFpX(field.characteristic)
        pol = P(field.characteristic ** field.ext_deg)           # X^d
        sib = 0
        for _ in range(4):
            pol = P.next_irreducible(pol)
            if pol.degree() != field.ext_deg:
                break
            if pol == field.modulus:
                continue
            G = finfields.GF(pol)
            try:
                for v in range(2, min(G.order, 12)):
                    g = G(v)
                    (g * g).sqrt()
            except Exception:
                pass
            sib += 1
        rec.count('sibling_fields_warmed', sib)
    F = RefFieldFast(field, ref) if field.ext_deg > 1 else ref.RefField(field.characteristic)
    fname = repr(shard['field'])
    rng = random.Random(f"c21/{shard['seed']}/{fname}")
    squares = None
    if shard['mode'] == 'all':
        squares = {F.mul(e, e) for e in F.elements()}
        todo = range(q)
    else:
        vals = [0, 1, 2, 3, 4, q - 1, q - 2]
        for _ in range(shard['n']):
            r = rng.randrange(q)
            vals.append(r)
            b = field(r)
            vals.append(int((b * b).value) if field.ext_deg > 1 else (b * b).value)        # a guaranteed square
        todo = vals
    hung = 0
    for ai in todo:
        a = field(ai)
        ea = ref.elt(F, a)
        case = [fname, ai]
        if not rec.wants(case):
            continue
        exp_sqr = (ea in squares) if squares is not None else F.is_square(ea)
        got = a.is_sqr()
        rec.count('is_sqr_checked')
        if bool(got) != exp_sqr:
            rec.violation(f'{fname}: is_sqr({ai}) = {got}, expected {exp_sqr}', {'mechanism': 'is_sqr'}, {'case': case}, case=case)
        if exp_sqr:
            # watchdog: a square root in these fields takes well under a millisecond; 20 s of CPU time without an answer is reported as non-termination
            # (CPU-time bound, > 10^4 times the normal duration, not affected by machine load), any exception as a failure of sqrt
            def _alarm(signum, frame):
                raise TimeoutError('sqrt did not return within 20 s of CPU time')
            old_h = signal.signal(signal.SIGVTALRM, _alarm)
            signal.setitimer(signal.ITIMER_VIRTUAL, 20)       # 20 s of this process's own CPU time: independent of the load of the machine
            try:
                r = a.sqrt()
            except TimeoutError as ex:
                hung += 1
                rec.violation(f'{fname}: sqrt({ai}) of a square does not terminate ({ex})', {'mechanism': 'sqrt-hangs'}, {'case': case}, case=case)
                if hung >= 2:
                    break
                continue
            except Exception as ex:
                rec.violation(f'{fname}: sqrt({ai}) of a square raised {type(ex).__name__}: {ex}', {'mechanism': 'sqrt-raises'}, {'case': case}, case=case)
                continue
            finally:
                signal.setitimer(signal.ITIMER_VIRTUAL, 0)
                signal.signal(signal.SIGVTALRM, old_h)
            rec.count('sqrt_checked')
            if type(r) is field and ai % 3 == 0:
                # the caller owns the result: using it with an in-place operator must not affect a later request for the same root
                r0 = field(r.value)
                r += 1
                r *= r
                again = field(ai).sqrt()
                rec.count('sqrt_after_inplace_use')
                if type(again) is not field or ref.elt(F, again * again) != ea:
                    rec.violation(f'{fname}: sqrt({ai}) asked again after the first result was changed in place gives {again!r}', {'mechanism': 'sqrt-result-shared'}, {'case': case}, case=case)
                r = r0
            if type(r) is not field or ref.elt(F, r * r) != ea:
                rec.violation(f'{fname}: sqrt({ai})^2 = {ref.elt(F, r * r) if type(r) is field else r!r} != {ea}', {'mechanism': 'sqrt'}, {'case': case}, case=case)
            if F.is_zero(ea):
                try:
                    z = a.sqrt(INV=True)
                    rec.violation(f'{fname}: sqrt(0, INV=True) returned {z!r} instead of raising ZeroDivisionError', {'mechanism': 'sqrt-inv-zero'}, {'case': case}, case=case)
                except ZeroDivisionError:
                    rec.count('inv_sqrt_zero_raises')
                except Exception as e:
                    rec.violation(f'{fname}: sqrt(0, INV=True) raised {type(e).__name__}, not ZeroDivisionError', {'mechanism': 'sqrt-inv-zero'}, {'case': case}, case=case)
            else:
                ri = a.sqrt(INV=True)
                rec.count('inv_sqrt_checked')
                # inverse of *a* square root: (ri)^2 * a == 1
                if type(ri) is not field or ref.elt(F, ri * ri * a) != F.one():
                    rec.violation(f'{fname}: sqrt({ai}, INV=True) is not the inverse of a square root', {'mechanism': 'sqrt-inv'}, {'case': case}, case=case)
        rec.case(case, nontrivial=ai not in (0, 1), sample={'field': fname, 'a': str(ai), 'is_sqr': bool(got)} if rng.random() < 0.002 else None)
