"""C31 — secure lists behave like Python lists under any operation history."""
import random
import asyncio

PROPERTY = 'C31'
ENGINE = 'SIM'
LEVEL = 'exploration'
TECHNIQUE = 'runtime history checker: random operation histories applied to a real seclist (public and secret indices, unit vectors, secindex) and mirrored on a Python list; after every operation the opened contents and the opened result are compared'
RULE = ('case = (configuration, element type, history of <= 25 operations on a list of length <= 8); non-trivial = history contains >= 1 operation with a secret index or a secret comparison; '
        'distinct by (config, type, history)')
ASSUMPTIONS = ['Python list semantics are the specification; find returns -1 when absent; index/remove raise ValueError when absent; secret indices are in range']
REQUIRE = {'any': {'operations_checked': 4000, 'secret_index_operations': 800, 'histories': 250}}
LEVEL_TEXT = 'exploration: random histories over secint, secfxp (fractional values) and secfld elements at m=1 (many) and under SIM in 3 configurations'
LEVEL_NOTE = 'trusted: Python list'
TIMEOUT = {'quick': 900, 'thorough': 10000}

from vlib.runner import config_name

OPS = ['get_int', 'get_sec', 'get_uv', 'get_si', 'set_int', 'set_sec', 'del_int', 'del_sec', 'del_slice', 'ins_int', 'ins_sec', 'pop_int', 'pop_sec', 'pop', 'append', 'extend',
       'add', 'mul', 'iadd', 'copy', 'remove', 'count', 'contains', 'find', 'index', 'sort', 'cmp', 'slice_get', 'set_si', 'set_slice', 'prod2', 'prod2', 'ins_uv', 'del_uv', 'pop_uv', 'remove_conc', 'reverse', 'imul', 'clear', 'key_again', 'key_again', 'eq_near']


def shards(tier, seed):
    k = 3 if tier == 'quick' else 8
    out = [{'name': f'm1-{tp}-{j}', 'kind': 'm1', 'type': tp, 'histories': 120 * k} for tp in ('int', 'fxp', 'fld') for j in range(3)]
    for c in [(2, 0, False), (3, 1, False), (3, 1, True)]:
        out.append({'name': config_name(c), 'kind': 'sim', 'cfg': list(c), 'type': 'int', 'histories': 8 * k})
    return out


def gen_history(rng, tp, length):
    """history as JSON-able list of ops with concrete public parameters; secret indices are values too (the harness shares them)"""
    def val():
        if tp == 'fxp':
            return rng.choice([0.5, 1.5, -2.25, 3.0, 0.0, 1.0, -1.0, 2.75, 0.25])
        if tp == 'fld':
            return rng.randrange(0, 101)
        return rng.randint(-5, 5)
    p = [val() for _ in range(rng.randint(0, 5))]
    hist = [['init', list(p)]]
    for _ in range(length):
        n = len(p)
        op = rng.choice(OPS)
        if op in ('get_int', 'get_sec', 'get_uv', 'get_si', 'set_int', 'set_sec', 'del_int', 'del_sec', 'pop_int', 'pop_sec', 'pop', 'set_si') and n == 0:
            continue
        if op in ('append', 'extend', 'add', 'mul', 'iadd', 'ins_int', 'ins_sec') and n >= 8:
            continue
        if tp == 'fld' and op in ('sort', 'cmp'):
            continue
        if op in ('get_int', 'del_int', 'pop_int'):
            i = rng.randrange(-n, n)
            hist.append([op, i])
            if op == 'del_int':
                del p[i]
            elif op == 'pop_int':
                p.pop(i)
        elif op in ('get_sec', 'get_uv', 'get_si', 'del_sec', 'pop_sec'):
            i = rng.randrange(n)
            hist.append([op, i])
            if op == 'del_sec':
                del p[i]
            elif op == 'pop_sec':
                p.pop(i)
        elif op in ('set_int',):
            i, v = rng.randrange(-n, n), val()
            hist.append([op, i, v])
            p[i] = v
        elif op in ('set_sec', 'set_si'):
            i, v = rng.randrange(n), val()
            hist.append([op, i, v])
            p[i] = v
        elif op == 'del_slice':
            a, b = sorted((rng.randint(0, n), rng.randint(0, n)))
            hist.append([op, a, b])
            del p[a:b]
        elif op == 'set_slice':
            a, b = sorted((rng.randint(0, n), rng.randint(0, n)))
            vs = [val() for _ in range(rng.randint(0, 2))]
            if n - (b - a) + len(vs) > 8:
                continue
            hist.append([op, a, b, vs])
            p[a:b] = vs
        elif op == 'slice_get':
            a, b = sorted((rng.randint(0, n), rng.randint(0, n)))
            hist.append([op, a, b])
        elif op == 'ins_int':
            i, v = rng.randint(0, n), val()
            hist.append([op, i, v])
            p.insert(i, v)
        elif op == 'ins_sec':
            i, v = rng.randint(0, n), val()
            hist.append([op, i, v])
            p.insert(i, v)
        elif op == 'ins_uv':
            if n >= 8:
                continue
            i, v = rng.randint(0, n), val()
            hist.append([op, i, v])
            p.insert(i, v)
        elif op in ('del_uv', 'pop_uv'):
            if n == 0:
                continue
            i = rng.randrange(n)
            hist.append([op, i])
            p.pop(i)
        elif op == 'remove_conc':
            if not p:
                continue
            v = rng.choice(p)
            hist.append([op, v, rng.randint(1, 4), rng.randrange(3)])
            p.remove(v)
        elif op == 'prod2':
            if n == 0:
                continue
            hist.append([op, rng.randrange(n), rng.randrange(n)])
        elif op == 'pop':
            hist.append([op])
            p.pop()
        elif op == 'append':
            v = val()
            hist.append([op, v])
            p.append(v)
        elif op in ('extend', 'add', 'iadd'):
            vs = [val() for _ in range(rng.randint(0, 2))]
            hist.append([op, vs])
            if op != 'add':
                p.extend(vs)
        elif op == 'eq_near':
            # equality with a list that differs in a way a shortcut (e.g. one aggregate test over all differences) would not see:
            # field: differences (k, 10k) whose squares sum to a multiple of 101; integers: a difference of 2^8 or 2^15; fixed point: one unit in the last place
            if n == 0 or (tp == 'fld' and n < 2):
                continue
            other = list(p)
            i = rng.randrange(n)
            if tp == 'fld':
                j = rng.choice([x for x in range(n) if x != i])
                k = rng.randrange(1, 10)
                other[i] = (other[i] + k) % 101
                other[j] = (other[j] + 10 * k) % 101
            elif tp == 'int':
                other[i] = other[i] + rng.choice([256, -256, 1 << 12, 3 << 8])
            else:
                other[i] = other[i] + rng.choice([1, -1]) / 256
            hist.append([op, rng.choice(['eq', 'ne']), other])
        elif op == 'key_again':
            if n == 0:
                continue
            i = rng.randrange(n)
            mut = rng.choice(['reverse', 'sort', 'set_int', 'set_other_key', 'rotate', 'slice'] if tp != 'fld' else ['reverse', 'set_int', 'set_other_key', 'rotate', 'slice'])
            v = val()
            hist.append([op, i, mut, v, rng.randrange(n)])
            if mut == 'reverse':
                p.reverse()
            elif mut == 'sort':
                p.sort()
            elif mut == 'set_int':
                p[i] = v
            elif mut == 'set_other_key':
                p[hist[-1][4]] = v
            elif mut == 'rotate':
                p.append(p.pop(0))
            else:
                p[0:1] = [v]
        elif op == 'reverse':
            hist.append([op])
            p.reverse()
        elif op == 'clear':
            if rng.random() < 0.7:
                continue
            hist.append([op])
            p.clear()
        elif op == 'imul':
            k = rng.choice([0, 1, 2, 2])
            if n * k > 8:
                continue
            hist.append([op, k])
            p *= k
        elif op == 'mul':
            k = rng.choice([0, 1, 2])
            if n * k > 8:
                continue
            hist.append([op, k])
        elif op == 'copy':
            hist.append([op])
        elif op in ('remove', 'count', 'contains', 'find', 'index'):
            v = rng.choice(p) if p and rng.random() < 0.9 else val()
            hist.append([op, v])
            if op in ('remove', 'index') and v not in p:
                break          # raises ValueError: inside a coroutine this ends the run, so it is the last operation of the history
            if op == 'remove' and v in p:
                p.remove(v)
        elif op == 'sort':
            rev = rng.random() < 0.4
            hist.append([op, rev])
            p.sort(reverse=rev)
        elif op == 'cmp':
            r = rng.random()
            other = list(p) if r < 0.2 else (list(p[:rng.randint(0, n)]) if r < 0.4 else ([val() for _ in range(rng.randint(0, 4))] if r < 0.8 else list(p) + [val()]))
            hist.append([op, rng.choice(['lt', 'le', 'eq', 'ne', 'ge', 'gt']), other])
    return hist


def make_program(tp, hist, log):
    """log(pid, step, expected_contents, got_contents, expected_result, got_result)"""
    async def program(mpc, pid):
        from mpyc.seclists import secindex
        T = {'int': mpc.SecInt(16), 'fxp': mpc.SecFxp(16, 8), 'fld': mpc.SecFld(101)}[tp]
        conv = (lambda v: float(v)) if tp == 'fxp' else (lambda v: int(v))

        def mk(v):
            return T(v)
        keys = {}

        def key(i, step):
            # secret index objects are ordinary secure numbers of the caller: the same object may be used again later (two out of three times here)
            if step % 3 == 0:
                return mk(i)
            if i not in keys:
                keys[i] = mk(i)
            return keys[i]

        def iterable(vs, step):
            # extend() and += accept any iterable, as for Python lists
            xs = [mk(v) for v in vs]
            return [xs, tuple(xs), (x for x in xs), map(lambda x: x, xs), iter(xs)][step % 5]

        async def opened(x):
            if isinstance(x, (int, bool, float)):
                return conv(x)                       # results on empty lists are public Python values
            if isinstance(x, list) and x and all(isinstance(a, (int, bool, float)) for a in x):
                return [conv(a) for a in x]
            r = await mpc.output(x)
            return [conv(a) for a in r] if isinstance(r, list) else conv(r)
        p = list(hist[0][1])
        s = mpc.seclist([mk(v) for v in p], T)
        for step, h in enumerate(hist[1:], 1):
            op = h[0]
            exp_res = got_res = None
            n = len(p)
            try:
                if op == 'get_int':
                    exp_res, got_res = p[h[1]], await opened(s[h[1]])
                elif op == 'get_sec':
                    exp_res, got_res = p[h[1]], await opened(s[key(h[1], step)])
                elif op == 'get_uv':
                    exp_res, got_res = p[h[1]], await opened(s[[mk(int(i == h[1])) for i in range(n)]])
                elif op == 'get_si':
                    off = h[1] // 2
                    exp_res, got_res = p[h[1]], await opened(s[secindex([mk(int(i == h[1] - off)) for i in range(n - off)], offset=off)])
                elif op == 'set_int':
                    p[h[1]] = h[2]
                    s[h[1]] = mk(h[2])
                elif op == 'set_sec':
                    p[h[1]] = h[2]
                    s[key(h[1], step)] = mk(h[2])
                elif op == 'set_si':
                    p[h[1]] = h[2]
                    s[secindex([mk(int(i == h[1])) for i in range(n)])] = mk(h[2])
                elif op == 'del_int':
                    del p[h[1]]
                    del s[h[1]]
                elif op == 'del_sec':
                    del p[h[1]]
                    del s[key(h[1], step)]
                elif op == 'del_slice':
                    del p[h[1]:h[2]]
                    del s[h[1]:h[2]]
                elif op == 'set_slice':
                    p[h[1]:h[2]] = h[3]
                    s[h[1]:h[2]] = [mk(v) for v in h[3]]
                elif op == 'slice_get':
                    exp_res, got_res = p[h[1]:h[2]], await opened(list(s[h[1]:h[2]])) if p[h[1]:h[2]] else []
                elif op == 'ins_int':
                    p.insert(h[1], h[2])
                    s.insert(h[1], mk(h[2]))
                elif op == 'ins_sec':
                    p.insert(h[1], h[2])
                    s.insert(key(h[1], step), mk(h[2]))
                elif op == 'pop_int':
                    exp_res, got_res = p.pop(h[1]), await opened(s.pop(h[1]))
                elif op == 'pop_sec':
                    exp_res, got_res = p.pop(h[1]), await opened(s.pop(key(h[1], step)))
                elif op in ('ins_uv', 'del_uv', 'pop_uv'):
                    # secret index given as a list of secure numbers (unit vector): the operation must leave the caller's index object as it was,
                    # so that it can be used again (here: read back through the same index object after an insert)
                    k = h[1]
                    ln = n + 1 if op == 'ins_uv' else n
                    idx = [mk(int(j == k)) for j in range(ln)]
                    if op == 'ins_uv':
                        p.insert(k, h[2])
                        s.insert(idx, mk(h[2]))
                        again = await opened(s[idx]) if len(idx) == len(s) else 'index object changed length'
                        exp_res = ('index intact', [int(j == k) for j in range(ln)], h[2])
                    elif op == 'del_uv':
                        p.pop(k)
                        del s[idx]
                        again = None
                        exp_res = ('index intact', [int(j == k) for j in range(ln)], None)
                    else:
                        ev = p.pop(k)
                        again = await opened(s.pop(idx))
                        exp_res = ('index intact', [int(j == k) for j in range(ln)], ev)
                    got_idx = [int(x) for x in await opened(list(idx))] if idx else []
                    got_res = ('index intact', got_idx, again)
                elif op == 'remove_conc':
                    # remove() running concurrently with unrelated secure work, parties yielding asymmetrically before awaiting it
                    p.remove(h[1])
                    r = s.remove(mk(h[1]))
                    w_ = mk(2) * mk(3) + mk(1)
                    if pid == h[3] % len(mpc.parties):
                        for _ in range(h[2]):
                            await asyncio.sleep(0)
                    w2 = mk(3) * mk(3)
                    await r
                    exp_res, got_res = [7, 9], [await opened(w_), await opened(w2)]
                    if tp == 'fxp':
                        got_res = [round(x) for x in got_res]
                elif op == 'prod2':
                    # elements taken out of the list are ordinary secure numbers: their product must be right (no stale integrality marks)
                    exp_res = p[h[1]] * p[h[2]] if tp != 'fld' else (p[h[1]] * p[h[2]]) % 101
                    got_res = await opened(s[h[1]] * s[mk(h[2])])
                    if tp == 'fxp' and abs(got_res - exp_res) <= 2 / 256:
                        got_res = exp_res
                elif op == 'pop':
                    exp_res, got_res = p.pop(), await opened(s.pop())
                elif op == 'append':
                    p.append(h[1])
                    s.append(mk(h[1]))
                elif op == 'extend':
                    p.extend(h[1])
                    s.extend(iterable(h[1], step))
                elif op == 'iadd':
                    p += h[1]
                    s += iterable(h[1], step)
                elif op == 'add':
                    exp_res = p + h[1]
                    t_ = s + [mk(v) for v in h[1]]
                    got_res = (await opened(list(t_)) if exp_res else []) if isinstance(t_, mpc.seclist) else 'not a seclist'
                elif op == 'key_again':
                    # one secret index object used before and after the list changed: the second access sees the list as it is then
                    k = mk(h[1])
                    r1 = await opened(s[k])
                    e1 = p[h[1]]
                    mut = h[2]
                    if mut == 'reverse':
                        p.reverse(); s.reverse()
                    elif mut == 'sort':
                        p.sort(); s.sort()
                    elif mut == 'set_int':
                        p[h[1]] = h[3]; s[h[1]] = mk(h[3])
                    elif mut == 'set_other_key':
                        p[h[4]] = h[3]; s[mk(h[4])] = mk(h[3])
                    elif mut == 'rotate':
                        p.append(p.pop(0)); s.append(s.pop(0))
                    else:
                        p[0:1] = [h[3]]; s[0:1] = [mk(h[3])]
                    exp_res, got_res = [e1, p[h[1]]], [r1, await opened(s[k])]
                elif op == 'reverse':
                    p.reverse()
                    s.reverse()
                elif op == 'clear':
                    p.clear()
                    s.clear()
                elif op == 'imul':
                    p *= h[1]
                    s *= h[1]
                elif op == 'mul':
                    exp_res = p * h[1]
                    t_ = s * h[1]
                    got_res = (await opened(list(t_)) if exp_res else []) if isinstance(t_, mpc.seclist) else 'not a seclist'
                elif op == 'copy':
                    c = s.copy()
                    exp_res = list(p)
                    got_res = (await opened(list(c)) if p else []) if isinstance(c, mpc.seclist) and c is not s else 'not a fresh seclist'
                elif op == 'remove':
                    if h[1] in p:
                        p.remove(h[1])
                        await s.remove(mk(h[1]))
                    else:
                        exp_res = 'ValueError'
                        try:
                            await s.remove(mk(h[1]))
                            got_res = 'no exception'
                        except ValueError:
                            got_res = 'ValueError'
                elif op == 'count':
                    exp_res, got_res = p.count(h[1]), await opened(s.count(mk(h[1])))
                elif op == 'contains':
                    exp_res, got_res = int(h[1] in p), await opened(s.contains(mk(h[1])))
                elif op == 'find':
                    exp_res = p.index(h[1]) if h[1] in p else -1
                    r = s.find(mk(h[1]))
                    got_res = await opened(r)
                    if tp == 'fld':
                        got_res = got_res if got_res <= 50 else got_res - 101
                elif op == 'index':
                    if h[1] in p:
                        exp_res = p.index(h[1])
                        r = s.index(mk(h[1]))
                        got_res = await opened(await r if hasattr(r, '__await__') and not isinstance(r, mpc.SecureObject) else r)
                    else:
                        exp_res = 'ValueError'
                        try:
                            r = s.index(mk(h[1]))
                            if hasattr(r, '__await__') and not isinstance(r, mpc.SecureObject):
                                r = await r
                            got_res = ('returned', await opened(r))
                        except ValueError:
                            got_res = 'ValueError'
                elif op == 'sort':
                    p.sort(reverse=h[1])
                    s.sort(reverse=h[1])
                elif op in ('cmp', 'eq_near'):
                    o = h[2]
                    so = mpc.seclist([mk(v) for v in o], T)
                    exp_res = int({'lt': p < o, 'le': p <= o, 'eq': p == o, 'ne': p != o, 'ge': p >= o, 'gt': p > o}[h[1]])
                    r = {'lt': lambda: s < so, 'le': lambda: s <= so, 'eq': lambda: s == so, 'ne': lambda: s != so, 'ge': lambda: s >= so, 'gt': lambda: s > so}[h[1]]()
                    got_res = int(r) if isinstance(r, (bool, int)) else int(await opened(r))
                got_p = await opened(list(s)) if len(s) else []
                if tp == 'fxp':
                    got_p = [float(x) for x in got_p]
            except Exception as e:
                got_p = f'raised {type(e).__name__}: {e}'
            log(pid, step, h, list(p), got_p, exp_res, got_res, len(s) if isinstance(got_p, list) else None)
            if not isinstance(got_p, list):
                break
        return True
    return program


SECRET_OPS = ('eq_near', 'key_again', 'ins_uv', 'del_uv', 'pop_uv', 'remove_conc', 'get_sec', 'get_uv', 'get_si', 'set_sec', 'set_si', 'del_sec', 'ins_sec', 'pop_sec', 'remove', 'count', 'contains', 'find', 'index', 'sort', 'cmp')


def run(shard, rec):
    from vlib import env
    env.prepare()
    from vlib import sim
    sim.install()
    rng = random.Random(f"c31/{shard['seed']}/{shard['name']}")
    tp = shard['type']
    if shard['kind'] == 'm1':
        m, t, no_prss = 1, 0, False
    else:
        m, t, no_prss = shard['cfg']
    for hi in range(shard['histories']):
        hist = gen_history(rng, tp, rng.randint(6, 25) if m == 1 else rng.randint(4, 10))
        case = [shard['name'], hi]
        if not rec.wants(case):
            continue
        entries = []
        w = sim.World(m, t, no_prss, seed=rng.randrange(1 << 30), policy=rng.choice(sim.POLICIES)).run(make_program(tp, hist, lambda *a: entries.append(a)))
        rec.count('histories')
        what = f'{shard["name"]} seclist[{tp}] history {hi}'
        wit = {'type': tp, 'history': hist}
        if w.ok_results() is None:
            done_steps = max((e[1] for e in entries), default=0)
            nxt = hist[done_steps + 1] if done_steps + 1 < len(hist) else None
            errs = ' '.join(w.error_summaries()) + ' '.join(str(r) for r in w.results() if r[0] == 'EXC')
            if nxt is not None and nxt[0] in ('remove', 'index') and done_steps + 2 == len(hist) and 'ValueError' in errs:
                rec.count('absent_value_raises_ValueError')      # Python raises ValueError too (here inside the coroutine, ending the run)
                rec.case(case, nontrivial=True)
                continue
            rec.violation(f'{what}: run did not complete after step {done_steps} (next op {nxt}): {w.status} {[r for r in w.results() if r[0] == "EXC"][:1]} {w.error_summaries()[:1]}',
                          {'mechanism': 'no-completion', 'op': nxt[0] if nxt else None, 'type': tp}, wit, case=case)
            continue
        for (pid, step, h, exp_p, got_p, exp_res, got_res, slen) in entries:
            rec.count('operations_checked')
            if h[0] in SECRET_OPS:
                rec.count('secret_index_operations')
            feats = {'op': h[0], 'type': tp}
            if not isinstance(got_p, list):
                rec.violation(f'{what}: party {pid} step {step} {h}: {got_p}', dict(feats, mechanism='exception'), wit, case=case)
                break
            if got_p != exp_p:
                rec.violation(f'{what}: party {pid} after step {step} {h}: contents {got_p}, Python list {exp_p}', dict(feats, mechanism='wrong-contents'), wit, case=case)
                break
            if slen != len(exp_p):
                rec.violation(f'{what}: party {pid} after step {step} {h}: public length {slen}, Python list has {len(exp_p)}', dict(feats, mechanism='wrong-length'), wit, case=case)
                break
            if exp_res is not None and got_res != exp_res:
                rec.violation(f'{what}: party {pid} step {step} {h}: result {got_res}, Python gives {exp_res}', dict(feats, mechanism='wrong-result'), wit, case=case)
                break
        rec.case(case, nontrivial=any(h[0] in SECRET_OPS for h in hist[1:]), sample={'config': shard['name'], 'type': tp, 'history': hist[:8]} if hi < 1 else None)
