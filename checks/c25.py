"""C25 — number-theory helpers (pure-Python gmpy2 stubs, factor_prime_power, ratrec) are correct."""
import random
import math

PROPERTY = 'C25'
ENGINE = 'UNIT'
LEVEL = 'exploration'
TECHNIQUE = 'runtime oracle monitor on the real mpyc.gmpy functions against definition-based references (trial division, factorisation-based symbols, bisection roots, exhaustive search for ratrec)'
RULE = ('case = (function, arguments); bounded ranges exhaustively, large arguments randomly (with known factorisations); '
        'non-trivial = |argument| > 3; distinct by (function, arguments)')
EXHAUSTIVE = 'is_prime/next_prime/prev_prime on 0..60000; invert, gcdext, kronecker on [-60,60]^2; jacobi/legendre on [-60,60] x odd n<=121; isqrt/iroot/is_square on 0..5000; factor_prime_power on 2..60000; ratrec on all x<y<=60 with all legal (N,D)'
ASSUMPTIONS = ['reference definitions in vlib/oracles/ref.py; deterministic Miller-Rabin bases for the large-number primality reference']
REQUIRE = {'any': {'is_prime': 20000, 'gcdext': 5000, 'invert': 5000, 'symbols': 5000, 'roots': 3000, 'fpp': 5000, 'ratrec': 2000}}
LEVEL_TEXT = 'exploration: exhaustive bounded ranges plus random 64-512 bit arguments with known structure'
LEVEL_NOTE = 'trusted: vlib/oracles/ref.py'

CARMICHAEL = [561, 1105, 1729, 2465, 2821, 6601, 8911, 10585, 15841, 29341, 41041, 46657, 52633, 62745, 63973, 75361, 101101, 115921, 126217, 162401,
              172081, 188461, 252601, 278545, 294409, 314821, 334153, 340561, 399001, 410041, 449065, 488881, 512461, 9746347772161]
SPSP = [2047, 3277, 4033, 4681, 8321, 1373653, 25326001, 3215031751, 2152302898747, 3474749660383, 341550071728321, 3825123056546413051,
        318665857834031151167461, 3317044064679887385961981]


def shards(tier, seed):
    big = tier == 'thorough'
    return [{'name': 'primes', 'kind': 'primes', 'N': 200000 if big else 60000, 'n': 3000 if big else 200},
            {'name': 'gcdext', 'kind': 'gcdext', 'R': 300 if big else 60, 'n': 20000 if big else 1500},
            {'name': 'invert', 'kind': 'invert', 'R': 300 if big else 60, 'n': 20000 if big else 1500},
            {'name': 'symbols', 'kind': 'symbols', 'R': 150 if big else 60, 'n': 5000 if big else 500},
            {'name': 'roots', 'kind': 'roots', 'N': 50000 if big else 5000, 'n': 5000 if big else 500},
            {'name': 'fpp', 'kind': 'fpp', 'N': 1000000 if big else 60000, 'n': 1500 if big else 150},
            {'name': 'ratrec', 'kind': 'ratrec', 'Y': 120 if big else 60, 'n': 20000 if big else 1500}] + \
           [{'name': f'primes-{o}', 'kind': 'primes_order', 'order': o, 'N': 200000 if big else 70000, 'n': 20000 if big else 4000}
            for o in ('descending', 'random', 'prev-first', 'jumps')]       # each in a fresh process: answers must not depend on what was asked before


def sign(x):
    return (x > 0) - (x < 0)


def run(shard, rec):
    from vlib import env
    env.prepare()
    from mpyc import gmpy as G
    from vlib.oracles import ref as R
    kind = shard['kind']
    rng = random.Random(f"c25/{shard['seed']}/{kind}")

    def V(what, fn, case):
        rec.violation(what, {'fn': fn}, {'case': case}, case=case)

    if kind == 'primes_order':
        N = shard['N']
        sieve = bytearray([1]) * (N + 200)
        sieve[0] = sieve[1] = 0
        for i in range(2, int(len(sieve) ** 0.5) + 1):
            if sieve[i]:
                sieve[i * i::i] = bytearray(len(sieve[i * i::i]))
        order = shard['order']
        if order == 'descending':
            xs = list(range(N, max(N - shard['n'], 2), -1)) + list(range(4000, 2, -1))
        elif order == 'random':
            xs = [rng.randrange(2, N) for _ in range(shard['n'])]
        elif order == 'jumps':
            xs = [b + d for b in (3599, 3481, 5041, 10201, 63001, 65521, 66000, 129599, 11449) for d in (0, 1, 2, -2) if b + d < N] + [rng.randrange(2, N) for _ in range(shard['n'] // 4)]
        else:
            xs = [rng.randrange(5, N) for _ in range(shard['n'])]
        for x in xs:
            case = ['prime-order', order, x]
            if not rec.wants(case):
                continue
            with rec.guard(f'{order}: prime functions at {x}', case, {'fn': 'prime-exception'}):
                rec.count('is_prime')
                if order == 'prev-first':
                    pp = G.prev_prime(x)
                    e = max(i for i in range(x - 1, 1, -1) if sieve[i]) if x > 2 else None
                    if pp != e:
                        V(f'prev_prime({x}) = {pp} expected {e} (first questions of a fresh process)', 'prev_prime', case)
                    nn = G.next_prime(x)
                    e = next(i for i in range(x + 1, len(sieve)) if sieve[i])
                    if nn != e:
                        V(f'next_prime({x}) = {nn} expected {e}', 'next_prime', case)
                elif bool(G.is_prime(x)) != bool(sieve[x]):
                    V(f'is_prime({x}) = {G.is_prime(x)} when asked in {order} order in a fresh process', 'is_prime', case)
            rec.case(case, nontrivial=x > 100)
        return
    if kind == 'primes':
        N = shard['N']
        sieve = bytearray([1]) * (N + 200)
        sieve[0] = sieve[1] = 0
        for i in range(2, int(len(sieve) ** 0.5) + 1):
            if sieve[i]:
                sieve[i * i::i] = bytearray(len(sieve[i * i::i]))
        nxt = None
        nexts = [None] * (N + 1)
        for i in range(len(sieve) - 1, -1, -1):
            if i <= N:
                nexts[i] = nxt
            if sieve[i]:
                nxt = i
        prev = None
        for x in range(-3, N):
            case = ['prime', x]
            if rec.wants(case):
                with rec.guard(f'is_prime/next_prime/prev_prime({x})', case, {'fn': 'prime-exception'}):
                    rec.count('is_prime')
                    if bool(G.is_prime(x)) != bool(x >= 0 and sieve[x]):
                        V(f'is_prime({x}) = {G.is_prime(x)}', 'is_prime', case)
                    e = nexts[x] if x >= 0 else 2
                    if G.next_prime(x) != e:
                        V(f'next_prime({x}) = {G.next_prime(x)} expected {e}', 'next_prime', case)
                    if x >= 3:
                        if G.prev_prime(x) != prev:
                            V(f'prev_prime({x}) = {G.prev_prime(x)} expected {prev}', 'prev_prime', case)
                    else:
                        try:
                            r = G.prev_prime(x)
                            V(f'prev_prime({x}) returned {r}', 'prev_prime', case)
                        except ValueError:
                            pass
                rec.case(case, nontrivial=x > 3)
            if x >= 0 and sieve[x]:
                prev = x
        for x in CARMICHAEL + SPSP:
            case = ['pseudoprime', str(x)]
            if rec.wants(case):
                rec.count('is_prime')
                if G.is_prime(x):
                    V(f'is_prime({x}) accepts a Carmichael number / strong pseudoprime', 'is_prime', case)
                rec.case(case)
        known_primes = [2**61 - 1, 2**89 - 1, 2**107 - 1, 2**127 - 1, 2**255 - 19, 2**521 - 1, 2**64 - 59, 2**256 - 189, 2**128 - 159]
        for x in known_primes:
            case = ['known-prime', str(x)]
            if rec.wants(case):
                rec.count('is_prime')
                if not G.is_prime(x):
                    V(f'is_prime rejects the prime {x}', 'is_prime', case)
                rec.case(case)
        for _ in range(shard['n']):
            bits = rng.choice([32, 64, 128, 256, 512])
            a = rng.getrandbits(bits // 2) | 1 | 1 << (bits // 2 - 1)
            b = rng.getrandbits(bits // 2) | 1 | 1 << (bits // 2 - 1)
            x = rng.choice([a * b, a, a * a, rng.choice(known_primes) * a])
            case = ['big', str(x)]
            if rec.wants(case):
                rec.count('is_prime')
                e = R.is_prime_mr(x)
                if bool(G.is_prime(x)) != e:
                    V(f'is_prime({x}) = {G.is_prime(x)}, reference {e}', 'is_prime', case)
                if bits <= 128:
                    nx = G.next_prime(x)
                    if not R.is_prime_mr(nx) or nx <= x or any(R.is_prime_mr(y) for y in range(x + 1, nx)):
                        V(f'next_prime({x}) = {nx} is not the next prime', 'next_prime', case)
                    pv = G.prev_prime(x)
                    if not R.is_prime_mr(pv) or pv >= x or any(R.is_prime_mr(y) for y in range(pv + 1, x)):
                        V(f'prev_prime({x}) = {pv} is not the previous prime', 'prev_prime', case)
                rec.case(case, sample={'fn': 'is_prime', 'x': str(x), 'prime': e} if rng.random() < 0.02 else None)
        return

    if kind == 'gcdext':
        Rr = shard['R']
        pairs = [(a, b) for a in range(-Rr, Rr + 1) for b in range(-Rr, Rr + 1)]
        for _ in range(shard['n']):
            bits = rng.choice([16, 64, 200])
            g = rng.choice([1, 1, 2, 3, rng.getrandbits(8) + 1])
            a = rng.choice([-1, 1]) * g * rng.getrandbits(bits)
            b = rng.choice([-1, 1]) * g * rng.choice([rng.getrandbits(bits), 1, 2, 0, abs(a) // g if g else 0])
            pairs.append((a, b))
        for a, b in pairs:
            case = ['gcdext', str(a), str(b)]
            if not rec.wants(case):
                continue
            rec.count('gcdext')
            with rec.guard(f'gcdext({a},{b})', case, {'fn': 'gcdext-exception'}):
                g, s, t = G.gcdext(a, b)
                eg = R.gcd(a, b)
                bad = None
                if g != eg or g != a * s + b * t:
                    bad = f'not Bezout: g={g} (gcd {eg}), a*s+b*t={a * s + b * t}'
                elif a == 0 and b == 0:
                    if (s, t) != (0, 0):
                        bad = f'a=b=0 gives s,t={s},{t}'
                elif abs(a) == abs(b) == g:
                    if s != 0 or t != sign(b):
                        bad = f'|a|=|b|=g: expected s=0,t=sign(b), got {s},{t}'
                elif b == 0 or abs(b) == 2 * g:
                    if s != sign(a):
                        bad = f'b=0 or |b|=2g: expected s=sign(a)={sign(a)}, got s={s}'
                elif a == 0 or abs(a) == 2 * g:
                    if t != sign(b):
                        bad = f'a=0 or |a|=2g: expected t=sign(b)={sign(b)}, got t={t}'
                elif not (2 * g * abs(s) < abs(b) and 2 * g * abs(t) < abs(a)):
                    bad = f'normal case: |s|<|b|/(2g), |t|<|a|/(2g) violated: s={s}, t={t}'
                if bad:
                    V(f'gcdext({a},{b}) = ({g},{s},{t}): {bad}', 'gcdext', case)
            rec.case(case, nontrivial=abs(a) > 3 or abs(b) > 3, sample={'fn': 'gcdext', 'a': str(a), 'b': str(b)} if rng.random() < 0.0005 else None)
        return

    if kind == 'invert':
        Rr = shard['R']
        pairs = [(x, m) for x in range(-Rr, Rr + 1) for m in range(-Rr, Rr + 1)]
        for _ in range(shard['n']):
            bits = rng.choice([16, 64, 256])
            m = rng.getrandbits(bits) * rng.choice([1, -1])
            pairs.append((rng.getrandbits(bits + 3) * rng.choice([1, -1]), m))
        for x, m in pairs:
            case = ['invert', str(x), str(m)]
            if not rec.wants(case):
                continue
            rec.count('invert')
            exists = m != 0 and R.gcd(x, m) == 1
            try:
                y = G.invert(x, m)
                if not exists:
                    V(f'invert({x},{m}) returned {y} although no inverse exists', 'invert', case)
                elif (x * y - 1) % abs(m) != 0 or not (0 <= y < abs(m)):
                    V(f'invert({x},{m}) = {y} is not the inverse in [0,|m|)', 'invert', case)
            except ZeroDivisionError:
                if exists:
                    V(f'invert({x},{m}) raised although gcd = 1', 'invert', case)
            except Exception as e:
                V(f'invert({x},{m}) raised {type(e).__name__}', 'invert', case)
            rec.case(case, nontrivial=abs(x) > 3 or abs(m) > 3)
        return

    if kind == 'symbols':
        Rr = shard['R']
        odd_primes = [p for p in range(3, 2 * Rr) if R.is_prime_td(p)]
        for x in range(-Rr, Rr + 1):
            for p in odd_primes:
                case = ['legendre', x, p]
                if rec.wants(case):
                    rec.count('symbols')
                    with rec.guard(f'legendre({x},{p})', case, {'fn': 'symbol-exception'}):
                        if G.legendre(x, p) != R.legendre_def(x, p):
                            V(f'legendre({x},{p}) = {G.legendre(x, p)} expected {R.legendre_def(x, p)}', 'legendre', case)
                    rec.case(case, nontrivial=abs(x) > 3)
            for n in range(1, 2 * Rr + 2, 2):
                case = ['jacobi', x, n]
                if rec.wants(case):
                    rec.count('symbols')
                    with rec.guard(f'jacobi({x},{n})', case, {'fn': 'symbol-exception'}):
                        if G.jacobi(x, n) != R.jacobi_def(x, n):
                            V(f'jacobi({x},{n}) = {G.jacobi(x, n)} expected {R.jacobi_def(x, n)}', 'jacobi', case)
                    rec.case(case, nontrivial=abs(x) > 3)
            for n in range(-Rr, Rr + 1):
                case = ['kronecker', x, n]
                if rec.wants(case):
                    rec.count('symbols')
                    with rec.guard(f'kronecker({x},{n})', case, {'fn': 'symbol-exception'}):
                        if G.kronecker(x, n) != R.kronecker_def(x, n):
                            V(f'kronecker({x},{n}) = {G.kronecker(x, n)} expected {R.kronecker_def(x, n)}', 'kronecker', case)
                    rec.case(case, nontrivial=abs(x) > 3)
        for bad in ((3, 0), (3, -5), (3, 8)):
            try:
                r = G.jacobi(*bad)
                V(f'jacobi{bad} returned {r} for an invalid modulus', 'jacobi', ['jacobi-invalid', bad])
            except ValueError:
                pass
        bigp = [2**61 - 1, 2**127 - 1, 2**255 - 19, 1000003]
        for _ in range(shard['n']):
            p = rng.choice(bigp)
            x = rng.randrange(-p, 2 * p)
            case = ['legendre-big', str(x), str(p)]
            if rec.wants(case):
                rec.count('symbols')
                if G.legendre(x, p) != R.legendre_def(x, p):
                    V(f'legendre({x},{p}) wrong', 'legendre', case)
                q = rng.choice(bigp)
                n = p * q
                if G.jacobi(x, n) != R.legendre_def(x, p) * R.legendre_def(x, q):
                    V(f'jacobi({x},{p}*{q}) wrong', 'jacobi', case)
                rec.case(case)
        return

    if kind == 'roots':
        xs = list(range(0, shard['N'])) + [rng.getrandbits(rng.choice([64, 200, 1000])) for _ in range(shard['n'])]
        xs += [y * y for y in (rng.getrandbits(100) for _ in range(shard['n'] // 4))] + [y * y + rng.choice([-1, 1]) for y in (rng.getrandbits(100) + 2 for _ in range(shard['n'] // 4))]
        for x in xs:
            case = ['roots', str(x)]
            if not rec.wants(case):
                continue
            rec.count('roots')
            with rec.guard(f'isqrt/iroot/is_square({x})', case, {'fn': 'roots-exception'}):
                e = R.isqrt_bisect(x)
                if G.isqrt(x) != e:
                    V(f'isqrt({x}) = {G.isqrt(x)} expected {e}', 'isqrt', case)
                if bool(G.is_square(x)) != (e * e == x):
                    V(f'is_square({x}) = {G.is_square(x)}', 'is_square', case)
                for n in (1, 2, 3, 5, 7, 64):
                    if n > 7 and x.bit_length() > 300:
                        continue
                    y, b = G.iroot(x, n)
                    ey = R.iroot_bisect(x, n) if x.bit_length() < 400 else None
                    if ey is None:
                        ok = y ** n <= x < (y + 1) ** n
                    else:
                        ok = y == ey
                    if not ok or bool(b) != (y ** n == x):
                        V(f'iroot({x},{n}) = ({y},{b})', 'iroot', case)
            rec.case(case, nontrivial=x > 3)
        for x in range(-40, 0):
            case = ['is_square-neg', x]
            try:
                if G.is_square(x):
                    V(f'is_square({x}) is True', 'is_square', case)
            except ValueError:
                pass
        return

    if kind == 'fpp':
        N = shard['N']
        # smallest prime factor sieve -> prime power iff n is a power of its spf
        spf = list(range(N + 1))
        for i in range(2, int(N ** 0.5) + 1):
            if spf[i] == i:
                for j in range(i * i, N + 1, i):
                    if spf[j] == j:
                        spf[j] = i
        for x in range(-2, N + 1):
            case = ['fpp', x]
            if not rec.wants(case):
                continue
            rec.count('fpp')
            exp = None
            if x >= 2:
                p = spf[x]
                d, y = 0, x
                while y % p == 0:
                    y //= p
                    d += 1
                if y == 1:
                    exp = (p, d)
            try:
                got = G.factor_prime_power(x)
                if exp is None or tuple(got) != exp:
                    V(f'factor_prime_power({x}) = {got}, expected {exp or "ValueError"}', 'fpp', case)
            except ValueError:
                if exp is not None:
                    V(f'factor_prime_power({x}) raised, expected {exp}', 'fpp', case)
            rec.case(case, nontrivial=x > 3)
        primes = [2, 3, 5, 1021, 1031, 65537, 2**31 - 1, 2**61 - 1, 2**127 - 1, 1000003, 2**89 - 1]
        for _ in range(shard['n']):
            p = rng.choice(primes)
            d = rng.choice([1, 2, 3, 4, 5, 6, 7, 8, 9, 12, 16, 25, 30])
            if p.bit_length() * d > 2500:
                continue
            x = p ** d
            case = ['fpp-big', str(p), d]
            if rec.wants(case):
                rec.count('fpp')
                with rec.guard(f'factor_prime_power({p}**{d})', case, {'fn': 'fpp-exception'}):
                    got = G.factor_prime_power(x)
                    if tuple(got) != (p, d):
                        V(f'factor_prime_power({p}**{d}) = {got}', 'fpp', case)
                q = rng.choice(primes)
                if q != p:
                    try:
                        got = G.factor_prime_power(x * q)
                        V(f'factor_prime_power({p}**{d}*{q}) = {got}, expected ValueError', 'fpp', case)
                    except ValueError:
                        pass
                rec.case(case, sample={'fn': 'factor_prime_power', 'p': str(p), 'd': d} if rng.random() < 0.05 else None)
        return

    if kind == 'ratrec':
        def oracle(x, y, N, D):
            sols = []
            for d in range(1, D + 1):
                n = (x * d) % y
                for nn in (n, n - y):
                    if abs(nn) <= N and math.gcd(nn, d) == 1:
                        sols.append((nn, d))
            return sols

        def one(x, y, N, D):
            case = ['ratrec', x, y, N, D]
            if not rec.wants(case):
                return
            rec.count('ratrec')
            legal = N >= 0 and D > 0 and 2 * N * D < y
            try:
                n, d = G.ratrec(x, y, N, D)
                if not legal:
                    V(f'ratrec({x},{y},{N},{D}) = {(n, d)} although 2ND >= y', 'ratrec', case)
                elif (n - x * d) % y != 0 or abs(n) > N or not 0 < d <= D or math.gcd(n, d) != 1:
                    V(f'ratrec({x},{y},{N},{D}) = {(n, d)} does not satisfy the contract', 'ratrec', case)
            except ValueError:
                if legal:
                    sols = oracle(x, y, N, D)
                    if sols:
                        V(f'ratrec({x},{y},{N},{D}) raised although {sols[0]} is a valid reconstruction', 'ratrec', case)
            except Exception as e:
                V(f'ratrec({x},{y},{N},{D}) raised {type(e).__name__}: {e}', 'ratrec', case)
            rec.case(case, nontrivial=y > 3)
        Y = shard['Y']
        for y in range(2, Y + 1):
            for x in range(0, y):
                for N in range(0, 8):
                    for D in range(1, 8):
                        if 2 * N * D < y + 4:
                            one(x, y, N, D)
        for _ in range(shard['n']):
            y = rng.choice([2**61 - 1, 1000003, rng.getrandbits(40) | 1, 10**9 + 7])
            D = rng.randrange(1, 2000)
            N = rng.randrange(0, max(1, (y - 1) // (2 * D)) + 1)
            N = min(N, 3000)
            n, d = rng.randrange(-N, N + 1), rng.randrange(1, D + 1)
            if math.gcd(d, y) != 1:
                continue
            x = n * pow(d, -1, y) % y
            case = ['ratrec-big', str(x), str(y), N, D]
            if rec.wants(case):
                rec.count('ratrec')
                g = math.gcd(n, d)
                en, ed = n // g, d // g
                try:
                    got = G.ratrec(x, y, N, D)
                    if tuple(got) != (en, ed):
                        V(f'ratrec({x},{y},{N},{D}) = {got}, planted fraction {en}/{ed}', 'ratrec', case)
                except ValueError:
                    if 2 * N * D < y:
                        V(f'ratrec({x},{y},{N},{D}) raised, planted fraction {en}/{ed}', 'ratrec', case)
                rec.case(case, sample={'fn': 'ratrec', 'x': str(x), 'y': str(y), 'N': N, 'D': D, 'planted': f'{en}/{ed}'} if rng.random() < 0.01 else None)
        # default N, D
        for y in (7, 101, 65537, 2**31 - 1):
            for x in range(0, min(y, 300)):
                try:
                    n, d = G.ratrec(x, y)
                    if (n - x * d) % y != 0 or d <= 0:
                        V(f'ratrec({x},{y}) default bounds = {(n, d)} wrong', 'ratrec', ['ratrec-default', x, y])
                except ValueError:
                    pass
        return
