"""C36 — a crashed or disconnected party never makes others output wrong values (fault enumeration)."""
import random

PROPERTY = 'C36'
ENGINE = 'SIM'
LEVEL = 'fault_enumeration'
TECHNIQUE = 'fault injection with enumerated crash points: one party is stopped at a chosen byte offset of its total outgoing stream (EOF / reset / silent), survivors\' completed outputs are compared with the reference; hangs are decided by quiescence and allowed'
RULE = ('case = (configuration, program, crashing party X, byte offset B in X\'s outgoing stream, end-of-stream mode, schedule); '
        'non-trivial = the crash happened before X finished (B < bytes X sends in the fault-free run) and >= 1 survivor was still waiting; distinct by that tuple')
EXHAUSTIVE = 'thorough: every byte offset for m <= 3, every 2nd (m=4) / 5th (m=5) byte plus all frame-relative offsets; quick: every frame boundary of every party plus offsets +1,+8,+11,+12,+13 and mid-payload inside every frame, 3 end-of-stream modes; thorough: every byte offset'
ASSUMPTIONS = ['a crash = the party stops executing and its connections end (EOF or reset) or go silent; bytes written before the crash point are delivered',
               'SIM transport/loop assumptions as in C08']
REQUIRE = {'any': {'crash_runs': 1000, 'survivor_outputs_checked': 1000, 'runs_where_survivors_hang': 100, 'crash_inside_frame': 300}}
LEVEL_TEXT = 'fault enumeration over crash points of bounded programs in configurations (2,0),(3,1) with and without PRSS,(4,1),(5,2) (thorough)'
LEVEL_NOTE = 'trusted: vlib/sim.py fault injection; reference values from Python ints'
TIMEOUT = {'quick': 1500, 'thorough': 14000}

PROGRAMS = 3


def shards(tier, seed):
    cfgs = [(2, 0, False), (3, 1, False), (3, 1, True), (4, 1, False)] if tier == 'quick' else [(2, 0, False), (3, 1, False), (3, 1, True), (4, 1, False), (5, 2, False), (5, 2, True)]
    out = []
    for c in cfgs:
        for p in range(PROGRAMS):
            for x in range(c[0]):
                out.append({'name': f'm{c[0]}t{c[1]}{"np" if c[2] else "prss"}-prog{p}-X{x}', 'cfg': list(c), 'prog': p, 'X': x, 'every_byte': tier == 'thorough'})
    return out


def make_program(p, m, vals, obs):
    """bounded programs: input -> 1-3 operations -> outputs (to all / to subsets), each completed output recorded"""
    ref = {}
    x = vals
    if p == 0:
        ref = {'prod': x[0] * x[1] + x[-1], 'max': max(x), 'lt': int(x[0] < x[1])}
    elif p == 1:
        ref = {'sum': sum(x), 'sq': x[0] * x[0], 'first': x[0]}
    else:
        ref = {'ifelse': x[1] if x[0] < x[-1] else x[-1], 'mul3': x[0] * x[1] * x[-1], 'eq': int(x[0] == x[1])}

    async def program(mpc, pid):
        secint = mpc.SecInt(16)
        xs = mpc.input(secint(vals[pid]))
        rec = obs[pid]
        if p == 0:
            a = xs[0] * xs[1] + xs[-1]
            rec.append(('prod', await mpc.output(a)))
            b = mpc.max(xs)
            r = await mpc.output(b, receivers=[0])
            if pid == 0:
                rec.append(('max', r))
            c = xs[0] < xs[1]
            rec.append(('lt', await mpc.output(c)))
        elif p == 1:
            s = mpc.sum(xs)
            q = xs[0] * xs[0]
            f1, f2 = mpc.output(s), mpc.output(q, receivers=list(range(m - 1, -1, -1))[:max(1, m - 1)])
            rec.append(('sum', await f1))
            r = await f2
            if r is not None:
                rec.append(('sq', r))
            r = await mpc.output(xs[0], receivers=m - 1)
            if pid == m - 1:
                rec.append(('first', r))
        else:
            c = mpc.if_else(xs[0] < xs[-1], xs[1], xs[-1])
            d = mpc.prod([xs[0], xs[1], xs[-1]])
            r = await mpc.output([c, d])
            rec.append(('ifelse', r[0]))
            rec.append(('mul3', r[1]))
            e = xs[0] == xs[1]
            r = await mpc.output(e, threshold=min(2 * mpc.threshold, m - 1))
            rec.append(('eq', r))
        return True
    return program, ref


def run(shard, rec):
    from vlib import env
    env.prepare()
    from vlib import sim
    sim.install()
    m, t, no_prss = shard['cfg']
    p, X = shard['prog'], shard['X']
    rng = random.Random(f"c36/{shard['seed']}/{shard['name']}")
    vals = [rng.randint(-50, 50) for _ in range(m)]
    if p == 2:
        vals[1] = vals[0] if rng.random() < 0.5 else vals[1]
    # fault-free run: reference check + the outgoing stream layout of X
    # with spare parties (m >= 2t+2) the survivors can go on after a crash: there the order in which they notice it matters, so two schedulers also in quick
    for policy in (('uniform', 'eager') if shard['every_byte'] or m >= 2 * t + 2 else ('uniform',)):
        sseed = rng.randrange(1 << 30)
        obs = [[] for _ in range(m)]
        program, ref = make_program(p, m, vals, obs)
        w0 = sim.World(m, t, no_prss, seed=sseed, policy=policy).run(program)
        if w0.status != 'DONE':
            rec.inconclusive_because(f'fault-free run did not complete: {w0.status} {w0.error_summaries()[:1]}')
            return
        for pid in range(m):
            for k, v in obs[pid]:
                if int(v) != ref[k]:
                    rec.inconclusive_because(f'fault-free run gives {k}={v}, reference {ref[k]} (C01 territory)')
                    return
        total = w0.sent[X]
        layout = list(w0.write_log[X])
        offsets = set()
        if shard['every_byte']:
            stride = {2: 1, 3: 1, 4: 2}.get(m, 5)          # every byte for m <= 3; every 2nd / 5th byte (plus all frame-relative offsets below) for m = 4 / 5
            offsets = set(range(0, total + 1, stride))
            for off, ln, dst in layout:
                for d in (0, 1, 8, 11, 12, 13, ln // 2, ln - 1):
                    if 0 <= d <= ln:
                        offsets.add(off + d)
            offsets.add(total)
        else:
            for off, ln, dst in layout:
                for d in (0, 1, 8, 11, 12, 13, ln // 2, ln - 1):
                    if 0 <= d <= ln:
                        offsets.add(off + d)
            offsets.add(total)
        multi_mode = {off + d for off, ln, dst in layout for d in (0, 12, ln // 2)} | {total}
        frame_starts = {off for off, ln, dst in layout}
        for B in sorted(offsets):
            for mode in ('eof', 'reset', 'silent'):
                if not shard['every_byte'] and mode != 'eof' and B not in multi_mode:
                    continue
                case = [shard['name'], policy, B, mode]
                if not rec.wants(case):
                    continue
                obs = [[] for _ in range(m)]
                program, ref = make_program(p, m, vals, obs)
                w = sim.World(m, t, no_prss, seed=sseed, policy=policy, crash_at=(X, B), crash_mode=mode)
                w.run(program, stuck_after=2500)
                rec.count('crash_runs')
                inside = B not in frame_starts and B != total
                rec.count('crash_inside_frame', int(inside))
                crashed = X in w.crashed
                hang = w.status in ('DEADLOCK', 'STUCK')
                rec.count('runs_where_survivors_hang', int(hang))
                if w.status == 'STEP-LIMIT':
                    rec.inconclusive_because(f'step limit in {case}')
                wrong = []
                nout = 0
                for pid in range(m):
                    if pid == X:
                        continue
                    for k, v in obs[pid]:
                        nout += 1
                        try:
                            ok = int(v) == ref[k]
                        except Exception:
                            ok = False
                        if not ok:
                            wrong.append((pid, k, v, ref[k]))
                rec.count('survivor_outputs_checked', nout)
                if wrong:
                    pid, k, v, e = wrong[0]
                    rec.violation(f'{shard["name"]}: party {X} crashed at byte {B} ({mode}), survivor {pid} completed output {k}={v!r}, correct value {e}',
                                  {'mechanism': 'wrong-output-after-crash', 'mode': mode, 'inside_frame': inside},
                                  {'vals': vals, 'policy': policy, 'sched_seed': sseed, 'layout': layout[:30], 'all_wrong': wrong[:5]}, case=case)
                survivors_waiting = crashed and (hang or nout < sum(len(o) for i, o in enumerate([[]] * m)))
                rec.case(case, nontrivial=crashed and B < total,
                         sample={'config': shard['name'], 'crash_party': X, 'byte_offset': B, 'of_total': total, 'mode': mode, 'world_end': w.status,
                                 'survivor_outputs_completed': nout} if B in (layout[len(layout) // 2][0] + 13,) and mode == 'eof' else None)
