"""C36 — a crashed or disconnected party never makes others output wrong values (fault enumeration)."""
import random
import asyncio

PROPERTY = 'C36'
ENGINE = 'SIM'
LEVEL = 'fault_enumeration'
TECHNIQUE = 'fault injection with enumerated crash points: one party is stopped at a chosen byte offset of its total outgoing stream (EOF / reset / silent), survivors\' completed outputs are compared with the reference; hangs are decided by quiescence and allowed; plus application-level stops (an exception leaving `async with mpc:`, a process exit between rounds while the survivors guard their outputs with try/except and carry on)'
RULE = ('case = (configuration, program, crashing party X, byte offset B in X\'s outgoing stream, end-of-stream mode, schedule); '
        'non-trivial = the crash happened before X finished (B < bytes X sends in the fault-free run) and >= 1 survivor was still waiting; distinct by that tuple')
EXHAUSTIVE = 'thorough: every byte offset for m <= 3, every 2nd byte for m = 4, all frame-relative offsets for m = 5; quick: every frame boundary of every party plus offsets +1,+8,+11,+12,+13 and mid-payload inside every frame, 3 end-of-stream modes; thorough: every byte offset'
ASSUMPTIONS = ['a crash = the party stops executing and its connections end (EOF or reset) or go silent; bytes written before the crash point are delivered',
               'SIM transport/loop assumptions as in C08']
REQUIRE = {'any': {'crash_runs': 1000, 'survivor_outputs_checked': 1000, 'runs_where_survivors_hang': 100, 'crash_inside_frame': 300, 'stops_by_application_error': 200, 'crashes_with_guarded_survivors': 200}}
LEVEL_TEXT = 'fault enumeration over crash points of bounded programs in configurations (2,0),(3,1) with and without PRSS,(4,1),(5,2) (thorough)'
LEVEL_NOTE = 'trusted: vlib/sim.py fault injection; reference values from Python ints'
TIMEOUT = {'quick': 1500, 'thorough': 14000}

PROGRAMS = 3


def shards(tier, seed):
    cfgs = [(2, 0, False), (3, 1, False), (3, 1, True), (4, 1, False)] if tier == 'quick' else [(2, 0, False), (3, 1, False), (3, 1, True), (4, 1, False), (5, 2, False), (5, 2, True)]
    out = []
    for c in cfgs:
        for p in range(PROGRAMS):
            for x in range(c[0]):
                out.append({'name': f'm{c[0]}t{c[1]}{"np" if c[2] else "prss"}-prog{p}-X{x}', 'cfg': list(c), 'prog': p, 'X': x, 'every_byte': tier == 'thorough' and c[0] <= 4})
    for c in [(3, 1, False), (4, 1, False), (3, 1, True), (5, 2, False)] + ([(5, 1, False), (4, 1, True), (2, 0, False)] if tier != 'quick' else []):
        out.append({'name': f'stop-m{c[0]}t{c[1]}{"np" if c[2] else "prss"}', 'kind': 'stop', 'cfg': list(c), 'reps': 8 if tier == 'quick' else 40})
    return out


def make_program(p, m, vals, obs):
    """bounded programs: input -> 1-3 operations -> outputs (to all / to subsets), each completed output recorded"""
    ref = {}
    x = vals
    if p == 0:
        ref = {'prod': x[0] * x[1] + x[-1], 'max': max(x), 'lt': int(x[0] < x[1])}
    elif p == 1:
        ref = {'sum': sum(x), 'sq': x[0] * x[0], 'first': x[0]}
    else:
        ref = {'ifelse': x[1] if x[0] < x[-1] else x[-1], 'mul3': x[0] * x[1] * x[-1], 'eq': int(x[0] == x[1])}

    async def program(mpc, pid):
        secint = mpc.SecInt(16)
        xs = mpc.input(secint(vals[pid]))
        rec = obs[pid]
        if p == 0:
            a = xs[0] * xs[1] + xs[-1]
            rec.append(('prod', await mpc.output(a)))
            b = mpc.max(xs)
            r = await mpc.output(b, receivers=[0])
            if pid == 0:
                rec.append(('max', r))
            c = xs[0] < xs[1]
            rec.append(('lt', await mpc.output(c)))
        elif p == 1:
            s = mpc.sum(xs)
            q = xs[0] * xs[0]
            f1, f2 = mpc.output(s), mpc.output(q, receivers=list(range(m - 1, -1, -1))[:max(1, m - 1)])
            rec.append(('sum', await f1))
            r = await f2
            if r is not None:
                rec.append(('sq', r))
            r = await mpc.output(xs[0], receivers=m - 1)
            if pid == m - 1:
                rec.append(('first', r))
        else:
            c = mpc.if_else(xs[0] < xs[-1], xs[1], xs[-1])
            d = mpc.prod([xs[0], xs[1], xs[-1]])
            r = await mpc.output([c, d])
            rec.append(('ifelse', r[0]))
            rec.append(('mul3', r[1]))
            e = xs[0] == xs[1]
            r = await mpc.output(e, threshold=min(2 * mpc.threshold, m - 1))
            rec.append(('eq', r))
        return True
    return program, ref


def make_rounds_program(m, vals, obs, style, X, R, world, s0=0):
    """rounds of (product output to all, single-sender input, output to a subset); party X stops after round R the way applications stop:
    style 'context'  - an application error propagates out of `async with mpc:` (the process then exits);
    style 'guarded'  - X is halted (crash injection by the caller); the survivors guard each output with try/except and carry on with the next step."""
    ref = {}
    for r in range(5):
        ref[f'prod{r}'] = vals[r % m] * vals[(r + 1) % m] + r
        ref[f'lin{r}'] = 3 * vals[r % m] - vals[(r + 1) % m] + r
        ref[f'in{r}'] = vals[(r + s0) % m] + 7 * r + vals[0]
    expected_exc = (ConnectionError, OSError)

    async def body(mpc, pid):
        secint = mpc.SecInt(32)
        xs = mpc.input(secint(vals[pid]))
        rec = obs[pid]
        for r in range(5):
            lin = 3 * xs[r % m] - xs[(r + 1) % m] + r
            if style == 'context' and pid == X and r == R:
                raise RuntimeError('application failure')
            if style == 'guarded' and pid == X and r == R:
                world[0].crash(pid)                 # the process exits here (os._exit): connections end, nothing more is sent
                await asyncio.sleep(0)
                return False
            if style == 'guarded' and r == R:
                for _ in range(30):                  # the survivors notice the lost connection before they go on
                    await asyncio.sleep(0)
            try:
                v = await mpc.output(lin)        # opened without any interaction before it
                rec.append((f'lin{r}', v))
            except expected_exc:
                if style != 'guarded':
                    raise
            if r % 2:
                try:
                    v = await mpc.output(xs[r % m] * xs[(r + 1) % m] + r)
                    rec.append((f'prod{r}', v))
                except expected_exc:
                    if style != 'guarded':
                        raise
            # a single-sender input directly after an output (and, in odd rounds, after a product)
            y = mpc.input(secint(vals[pid] + 7 * r), senders=(r + s0) % m)
            try:
                v = await mpc.output(y + xs[0], receivers=[(r + 1) % m, (r + 2) % m])
                if v is not None:
                    rec.append((f'in{r}', v))
            except expected_exc:
                if style != 'guarded':
                    raise
            if not r % 2:
                try:
                    v = await mpc.output(xs[r % m] * xs[(r + 1) % m] + r)
                    rec.append((f'prod{r}', v))
                except expected_exc:
                    if style != 'guarded':
                        raise
        return True

    async def program(mpc, pid):
        try:
            async with mpc:
                return await body(mpc, pid)
        except RuntimeError:
            world[0].crash(pid)             # the failing application's process exits
            raise
    return program, ref


def run_stop(shard, rec, sim):
    m, t, no_prss = shard['cfg']
    rng = random.Random(f"c36/{shard['seed']}/{shard['name']}")
    for rep in range(shard['reps']):
        vals = [rng.randint(-50, 50) for _ in range(m)]
        for X in range(m):
            for style in ('context', 'guarded'):
                for R in range(4):
                    policy = rng.choice(('uniform', 'eager', 'lazy', 'reverse'))
                    sseed = rng.randrange(1 << 30)
                    case = [shard['name'], rep, X, style, R, policy]
                    if not rec.wants(case):
                        continue
                    obs = [[] for _ in range(m)]
                    world = [None]
                    program, ref = make_rounds_program(m, vals, obs, style, X, R, world)
                    kw = {}
                    s0 = rng.randrange(m)
                    program, ref = make_rounds_program(m, vals, obs, style, X, R, world, s0)
                    if style == 'guarded':
                        kw = {'crash_mode': rng.choice(['eof', 'reset'])}
                    w = sim.World(m, t, no_prss, seed=sseed, policy=policy, **kw)
                    world[0] = w
                    w.run(program, wrap=False, stuck_after=2500)
                    rec.count('crash_runs')
                    rec.count('stops_by_application_error' if style == 'context' else 'crashes_with_guarded_survivors')
                    hang = w.status in ('DEADLOCK', 'STUCK')
                    rec.count('runs_where_survivors_hang', int(hang))
                    wrong, nout = [], 0
                    for pid in range(m):
                        if pid == X:
                            continue
                        for k, v in obs[pid]:
                            nout += 1
                            try:
                                ok = int(v) == ref[k]
                            except Exception:
                                ok = False
                            if not ok:
                                wrong.append((pid, k, v, ref[k]))
                    rec.count('survivor_outputs_checked', nout)
                    if wrong:
                        pid, k, v, e = wrong[0]
                        how = 'stopped with an application error after round' if style == 'context' else f'was halted ({kw.get("crash_mode")}) around round'
                        rec.violation(f'{shard["name"]}: party {X} {how} {R}; survivor {pid} completed output {k}={v!r}, correct value {e}',
                                      {'mechanism': 'wrong-output-after-crash', 'mode': style, 'inside_frame': False},
                                      {'vals': vals, 'policy': policy, 'sched_seed': sseed, 'all_wrong': wrong[:5]}, case=case)
                    rec.case(case, nontrivial=True, sample={'config': shard['name'], 'stopping_party': X, 'style': style, 'round': R, 'world_end': w.status, 'survivor_outputs_completed': nout} if rep == 0 and X == 1 and R == 1 else None)


def run(shard, rec):
    from vlib import env
    env.prepare()
    from vlib import sim
    sim.install()
    if shard.get('kind') == 'stop':
        return run_stop(shard, rec, sim)
    m, t, no_prss = shard['cfg']
    p, X = shard['prog'], shard['X']
    rng = random.Random(f"c36/{shard['seed']}/{shard['name']}")
    vals = [rng.randint(-50, 50) for _ in range(m)]
    if p == 2:
        vals[1] = vals[0] if rng.random() < 0.5 else vals[1]
    # fault-free run: reference check + the outgoing stream layout of X
    # with spare parties (m >= 2t+2) the survivors can go on after a crash: there the order in which they notice it matters, so two schedulers also in quick
    for policy in (('uniform', 'eager') if shard['every_byte'] or m >= 2 * t + 2 else ('uniform',)):
        sseed = rng.randrange(1 << 30)
        obs = [[] for _ in range(m)]
        program, ref = make_program(p, m, vals, obs)
        w0 = sim.World(m, t, no_prss, seed=sseed, policy=policy).run(program)
        if w0.status != 'DONE':
            rec.inconclusive_because(f'fault-free run did not complete: {w0.status} {w0.error_summaries()[:1]}')
            return
        for pid in range(m):
            for k, v in obs[pid]:
                if int(v) != ref[k]:
                    rec.inconclusive_because(f'fault-free run gives {k}={v}, reference {ref[k]} (C01 territory)')
                    return
        total = w0.sent[X]
        layout = list(w0.write_log[X])
        offsets = set()
        if shard['every_byte']:
            stride = {2: 1, 3: 1, 4: 2}.get(m, 5)          # every byte for m <= 3; every 2nd / 5th byte (plus all frame-relative offsets below) for m = 4 / 5
            offsets = set(range(0, total + 1, stride))
            for off, ln, dst in layout:
                for d in (0, 1, 8, 11, 12, 13, ln // 2, ln - 1):
                    if 0 <= d <= ln:
                        offsets.add(off + d)
            offsets.add(total)
        else:
            for off, ln, dst in layout:
                for d in (0, 1, 8, 11, 12, 13, ln // 2, ln - 1):
                    if 0 <= d <= ln:
                        offsets.add(off + d)
            offsets.add(total)
        multi_mode = {off + d for off, ln, dst in layout for d in (0, 12, ln // 2)} | {total}
        frame_starts = {off for off, ln, dst in layout}
        for B in sorted(offsets):
            for mode in ('eof', 'reset', 'silent'):
                if not shard['every_byte'] and mode != 'eof' and B not in multi_mode:
                    continue
                case = [shard['name'], policy, B, mode]
                if not rec.wants(case):
                    continue
                obs = [[] for _ in range(m)]
                program, ref = make_program(p, m, vals, obs)
                w = sim.World(m, t, no_prss, seed=sseed, policy=policy, crash_at=(X, B), crash_mode=mode)
                w.run(program, stuck_after=2500)
                rec.count('crash_runs')
                inside = B not in frame_starts and B != total
                rec.count('crash_inside_frame', int(inside))
                crashed = X in w.crashed
                hang = w.status in ('DEADLOCK', 'STUCK')
                rec.count('runs_where_survivors_hang', int(hang))
                if w.status == 'STEP-LIMIT':
                    rec.inconclusive_because(f'step limit in {case}')
                wrong = []
                nout = 0
                for pid in range(m):
                    if pid == X:
                        continue
                    for k, v in obs[pid]:
                        nout += 1
                        try:
                            ok = int(v) == ref[k]
                        except Exception:
                            ok = False
                        if not ok:
                            wrong.append((pid, k, v, ref[k]))
                rec.count('survivor_outputs_checked', nout)
                if wrong:
                    pid, k, v, e = wrong[0]
                    rec.violation(f'{shard["name"]}: party {X} crashed at byte {B} ({mode}), survivor {pid} completed output {k}={v!r}, correct value {e}',
                                  {'mechanism': 'wrong-output-after-crash', 'mode': mode, 'inside_frame': inside},
                                  {'vals': vals, 'policy': policy, 'sched_seed': sseed, 'layout': layout[:30], 'all_wrong': wrong[:5]}, case=case)
                survivors_waiting = crashed and (hang or nout < sum(len(o) for i, o in enumerate([[]] * m)))
                rec.case(case, nontrivial=crashed and B < total,
                         sample={'config': shard['name'], 'crash_party': X, 'byte_offset': B, 'of_total': total, 'mode': mode, 'world_end': w.status,
                                 'survivor_outputs_completed': nout} if B in (layout[len(layout) // 2][0] + 13,) and mode == 'eof' else None)
