"""C35 — barriers and shutdown wait for all started MPyC coroutines."""
import random

PROPERTY = 'C35'
ENGINE = 'SIM'
LEVEL = 'exploration'
TECHNIQUE = 'runtime task monitor (recording asyncoro.Task subclass, independent of _pc_level): pending MPyC tasks sampled at every top-level barrier return and at every transport.close(); end-state monitor on transports/protocols'
RULE = ('case = (configuration, program with dangling/nested work and barriers, schedule); non-trivial = >= 1 MPyC task was still pending when the barrier/shutdown was *entered* '
        '(so waiting was actually necessary); distinct by (config, program, schedule hash)')
ASSUMPTIONS = ['SIM transport/loop assumptions as in C08', 'a coroutine "started earlier by the program" = an asyncoro.Task created before the barrier/shutdown call']
REQUIRE = {'any': {'barrier_returns_checked': 100, 'close_events_checked': 200, 'barrier_entries_with_pending_work': 30, 'shutdown_entries_with_pending_work': 30}}
LEVEL_TEXT = 'exploration: programs with dangling results, nested coroutines, throttler, barriers; explicit and context-manager shutdown; 7 policies incl. starvation of one party'
LEVEL_NOTE = 'trusted: vlib/sim.py; task monitor counts tasks by identity, not via the runtime\'s own counter'
TIMEOUT = {'quick': 1500, 'thorough': 10000}

from vlib.runner import config_name
Q_CONFIGS = [(1, 0, False), (2, 0, False), (3, 1, False), (3, 1, True), (4, 1, True), (5, 2, False), (7, 3, True)]


def shards(tier, seed):
    from vlib.runner import ALL_CONFIGS
    cfgs = Q_CONFIGS if tier == 'quick' else ALL_CONFIGS
    return [{'name': config_name(c), 'cfg': list(c), 'programs': (20 if c[0] <= 5 else 10) if tier == 'quick' else 50} for c in cfgs]


def make_program(rng, m, obs):
    """program with dangling work and barriers.  obs collects observations made from inside the program."""
    n_in = rng.randint(2, 4)
    vals = [rng.randint(-9, 9) for _ in range(n_in)]
    senders = [rng.randrange(m) for _ in range(n_in)]
    plan = []
    for _ in range(rng.randint(2, 6)):
        plan.append(rng.choice(['mul', 'cmp', 'prod', 'nested', 'barrier', 'throttle', 'dangle_out', 'mod', 'peek', 'sleep', 'raiser', 'call_raises']))
    if 'barrier' not in plan and rng.random() < 0.7:
        plan.insert(rng.randrange(len(plan) + 1), 'barrier')
    style = rng.choice(['explicit', 'context'])
    final_await = rng.random() < 0.5
    spec = {'vals': vals, 'senders': senders, 'plan': plan, 'style': style, 'final_await': final_await}

    async def body(mpc, pid):
        import asyncio
        w = obs['world']
        secint = mpc.SecInt(16)

        @mpc.coroutine
        async def nested(x, y):
            await mpc.returnType(secint)
            z = x * y
            return z + 1
        @mpc.coroutine
        async def raiser(x) -> None:
            # a None-typed coroutine (like peek) that fails inside its task: mpyc tolerates it, the program carries on
            await mpc.output(x)
            raise ValueError('deliberate failure inside a None-typed MPyC coroutine')
        @mpc.coroutine
        async def checks_args(x, n):
            # a coroutine that validates its arguments before declaring its return type: the call itself raises, the program handles it
            if n < 0:
                raise ValueError('negative count')
            await mpc.returnType(secint)
            return x * n
        xs = [mpc.input(secint(v if pid == s else 0), senders=s) for v, s in zip(vals, senders)]
        acc = xs[0]
        dangling = []
        for k, op in enumerate(plan):
            a, b = xs[k % n_in], xs[(k + 1) % n_in]
            if op == 'mul':
                acc = acc * a
            elif op == 'cmp':
                acc = mpc.if_else(a < b, acc, acc + 1)
            elif op == 'prod':
                dangling.append(mpc.prod([a, b, a]))
            elif op == 'nested':
                dangling.append(nested(a, b))
            elif op == 'mod':
                dangling.append(a % 3)
            elif op == 'raiser':
                raiser(a * b)
            elif op == 'call_raises':
                try:
                    checks_args(a, -1)
                except ValueError:
                    pass
                try:
                    mpc.indexOf([], a)                  # library call that refuses its arguments at call time (documented ValueError)
                except ValueError:
                    pass
                dangling.append(checks_args(a * b, 2) * b)
            elif op == 'peek':
                mpc.peek(a * b)
            elif op == 'dangle_out':
                dangling.append(mpc.output(a * b))
            elif op == 'sleep' and pid == 0:
                await asyncio.sleep(0)
            elif op == 'throttle':
                obs['entries'].append((pid, 'throttle', len(w.pending_tasks[pid])))
                await mpc.throttler(1.0)
                if not mpc.options.no_barrier:
                    obs['barrier_returns'].append((pid, len(w.pending_tasks[pid]), k, 'throttler'))
            elif op == 'barrier':
                obs['entries'].append((pid, 'barrier', len(w.pending_tasks[pid])))
                await mpc.barrier(f'b{k}')
                obs['barrier_returns'].append((pid, len(w.pending_tasks[pid]), k, 'barrier'))
        if final_await:
            r = await mpc.output(acc)
        else:
            dangling.append(mpc.output(acc))
            r = None
        obs['entries'].append((pid, 'shutdown', len(w.pending_tasks[pid])))
        return r

    async def program(mpc, pid):
        if style == 'context':
            async with mpc:
                r = await body(mpc, pid)
            return r
        await mpc.start()
        r = await body(mpc, pid)
        await mpc.shutdown()
        return r
    return spec, program


def run(shard, rec):
    from vlib import env
    env.prepare()
    from vlib import sim
    sim.install()
    m, t, no_prss = shard['cfg']
    rng = random.Random(f"c35/{shard['seed']}/{shard['name']}")
    for pi in range(shard['programs']):
        obs = {}
        prng = random.Random(rng.randrange(1 << 30))
        pstate = prng.getstate()
        for policy in rng.sample(sim.POLICIES, 3) + ['starve']:
            sseed = rng.randrange(1 << 30)
            case = [shard['name'], pi, policy, sseed]
            if not rec.wants(case):
                continue
            prng.setstate(pstate)
            obs = {'entries': [], 'barrier_returns': [], 'world': None}
            spec, program = make_program(prng, m, obs)
            w = sim.World(m, t, no_prss, seed=sseed, policy=policy)
            obs['world'] = w
            w.run(program, wrap=False)
            rec.count('runs')
            feats = {'asymmetric_yield': 'sleep' in spec['plan'] and m > 1, 'deferred_bump': bool(w.deferred_bumps)}
            what = f'{shard["name"]} program {pi} ({spec["plan"]}, {spec["style"]}) policy {policy}'
            wit = {'spec': spec, 'policy': policy, 'sched_seed': sseed}

            def V(mech, text):
                rec.violation(f'{what}: {text}', dict(feats, mechanism=mech), wit, case=case)
            # (a) at the return of every top-level barrier: no MPyC task started earlier is pending
            for pid, pending, k, kind in obs['barrier_returns']:
                rec.count('barrier_returns_checked')
                if pending:
                    V('barrier-returned-early', f'party {pid}: {kind} at step {k} returned with {pending} MPyC coroutine(s) still pending')
            # (b) when a party closes a connection, none of its MPyC tasks is pending
            for src, dst, pending in w.close_events:
                rec.count('close_events_checked')
                if pending:
                    V('closed-with-pending-work', f'party {src} closed its connection to {dst} with {pending} MPyC coroutine(s) pending')
            for pid, kind, pending in obs['entries']:
                if pending:
                    rec.count('barrier_entries_with_pending_work' if kind != 'shutdown' else 'shutdown_entries_with_pending_work')
            # (c) shutdown completes on all parties and closes every connection
            if w.status != 'DONE' or any(r[0] != 'OK' for r in w.results()):
                V('shutdown-incomplete', f'world {w.status}; results {[r[0] for r in w.results()]}; first failure {[r for r in w.results() if r[0] not in ("OK", "PENDING")][:1]}; errors {w.error_summaries()[:2]}')
            else:
                for (i, j), c in w.conns.items():
                    if not c.closed:
                        V('connection-left-open', f'connection {i}->{j} not closed after shutdown')
                    elif not c.lost:
                        V('connection-lost-not-delivered', f'protocol at {j} never saw connection_lost for peer {i}')
                for rt in w.rts:
                    if rt._pc_level != 0:
                        V('pc-level-nonzero', f'party {rt.pid} ends with _pc_level={rt._pc_level}')
                    if len(w.pending_tasks[rt.pid]):
                        V('tasks-pending-at-exit', f'party {rt.pid}: {len(w.pending_tasks[rt.pid])} MPyC coroutine(s) never completed')
                errs = [e for e in w.error_summaries() if 'deliberate failure' not in e and 'never retrieved' not in e]
                if errs:
                    V('loop-error', f'{errs[:2]}')
            waited = any(p for _, _, p in obs['entries'])
            rec.case([shard['name'], pi, w.sched_sig()], nontrivial=waited,
                     sample={'config': shard['name'], 'plan': spec['plan'], 'style': spec['style'], 'policy': policy,
                             'pending_at_entries': obs['entries'][:6], 'tasks_created': dict(w.tasks_created)} if pi == 0 else None)
