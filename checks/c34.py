"""C34 — secure statistics agree with Python's statistics module."""
import random
import math
import statistics
from fractions import Fraction as Fr

PROPERTY = 'C34'
ENGINE = 'SIM'
LEVEL = 'exploration'
TECHNIQUE = 'runtime oracle monitor: real mpyc.statistics functions on secure integer and fixed-point data sets run at m=1 (many) and under SIM; results compared with Python\'s statistics module evaluated on exact Fractions, with the documented integer rounding and an a-priori fixed-point tolerance'
RULE = ('case = (configuration, type, function, data set [, n, method]); data sizes 1..12, small ranges (duplicates, all-equal, two-valued); non-trivial = data has >= 3 points not all equal; distinct by that tuple')
ASSUMPTIONS = ['secint: results are the nearest integer of the exact value (either neighbour at exact ties); stdev/pstdev = floor sqrt of the rounded variance',
               'secfxp(32,16): tolerance = 2^-f * 64 * n * (1+max|x|)^2 for moments, and a relative 2^-(f-8) for quotients of well-conditioned data (spread >= 1); order statistics within 2 units']
REQUIRE = {'any': {'results_checked': 500}}
LEVEL_TEXT = 'exploration over random and structured data sets for all 14 functions, secint(32) and secfxp(32,16), m=1 wide plus (2,0),(3,1) with and without PRSS'
LEVEL_NOTE = 'trusted: Python statistics module on Fractions'
TIMEOUT = {'quick': 900, 'thorough': 10000}

from vlib.runner import config_name

INT_FUNCS = ['mean', 'median', 'median_low', 'median_high', 'mode', 'variance', 'pvariance', 'stdev', 'pstdev', 'quantiles_e', 'quantiles_i', 'covariance']
FXP_FUNCS = ['mean', 'median', 'median_low', 'median_high', 'mode', 'variance', 'pvariance', 'stdev', 'pstdev', 'quantiles_e', 'quantiles_i', 'covariance', 'correlation', 'linear_regression']


def shards(tier, seed):
    k = 3 if tier == 'quick' else 8
    out = [{'name': f'm1-{tp}-{j}', 'kind': 'm1', 'type': tp, 'cases': 70 * k} for tp in ('int', 'fxp') for j in range(4)]
    for c in [(2, 0, False), (3, 1, False), (3, 1, True)]:
        out.append({'name': config_name(c), 'kind': 'sim', 'cfg': list(c), 'cases': 10 * k})
    out.append({'name': 'probe-mode-ties', 'kind': 'probe'})
    return out


def gen_data(rng, tp, n):
    style = rng.choice(['random', 'dups', 'equal', 'two', 'sorted', 'neg'])
    if tp == 'int':
        if style == 'equal':
            return [rng.randint(-9, 9)] * n
        if style == 'two':
            a, b = rng.randint(-9, 9), rng.randint(-9, 9)
            return [rng.choice([a, b]) for _ in range(n)]
        span = 3 if style == 'dups' else 30
        d = [rng.randint(-span if style != 'sorted' else 0, span) for _ in range(n)]
        return sorted(d) if style == 'sorted' else d
    u = 1 << 8
    if style == 'equal':
        return [rng.randint(-8 * u, 8 * u) / u] * n
    if style == 'two':
        a, b = rng.randint(-8 * u, 8 * u) / u, rng.randint(-8 * u, 8 * u) / u
        return [rng.choice([a, b]) for _ in range(n)]
    d = [rng.randint(-8 * u, 8 * u) / u if style != 'dups' else rng.choice([0.5, 1.5, -2.25, 3.0]) for _ in range(n)]
    return sorted(d) if style == 'sorted' else d


def reference(fn, X, Y, nq):
    """exact result(s) as Fractions (list for quantiles / regression)"""
    if fn == 'mean': return [statistics.mean(X)]
    if fn == 'median': return [statistics.median(X)]
    if fn == 'median_low': return [statistics.median_low(X)]
    if fn == 'median_high': return [statistics.median_high(X)]
    if fn == 'mode': return [statistics.mode(X)]
    if fn == 'variance': return [statistics.variance(X)]
    if fn == 'pvariance': return [statistics.pvariance(X)]
    if fn == 'stdev': return [statistics.variance(X)]            # judged through the variance
    if fn == 'pstdev': return [statistics.pvariance(X)]
    if fn == 'quantiles_e': return list(statistics.quantiles(X, n=nq, method='exclusive'))
    if fn == 'quantiles_i': return list(statistics.quantiles(X, n=nq, method='inclusive'))
    mx, my = statistics.mean(X), statistics.mean(Y)
    sxy = sum((a - mx) * (b - my) for a, b in zip(X, Y))
    sxx = sum((a - mx) ** 2 for a in X)
    syy = sum((b - my) ** 2 for b in Y)
    if fn == 'covariance': return [sxy / (len(X) - 1)]
    if fn == 'correlation': return [('corr', sxy, sxx, syy)]
    if fn == 'linear_regression':
        slope = sxy / sxx
        return [slope, my - slope * mx]
    raise KeyError(fn)


def call(mpc, fn, xs, ys, nq):
    S = mpc.statistics
    if fn == 'quantiles_e': return S.quantiles(xs, n=nq, method='exclusive')
    if fn == 'quantiles_i': return S.quantiles(xs, n=nq, method='inclusive')
    if fn in ('covariance', 'correlation'): return getattr(S, fn)(xs, ys)
    if fn == 'linear_regression':
        r = S.linear_regression(xs, ys)
        return [r.slope, r.intercept]
    return getattr(S, fn)(xs)


def judge(rec, what, case, tp, fn, X, Y, nq, got, f=16):
    feats = {'fn': fn, 'type': tp}
    try:
        exp = reference(fn, X, Y, nq)
    except (statistics.StatisticsError, ZeroDivisionError):
        return
    got = list(got) if isinstance(got, (list, tuple)) else [got]
    rec.count('results_checked')
    rec.seen('functions', f'{tp}:{fn}')
    if len(got) != len(exp):
        rec.violation(f'{what}: {fn} returned {len(got)} values, expected {len(exp)}', dict(feats, mechanism='shape'), {'case': case}, case=case)
        return
    n = len(X)
    mx = max([abs(v) for v in X + (Y or [])] + [1])
    for k, (g, e) in enumerate(zip(got, exp)):
        if tp == 'int':
            g = int(g)
            if fn in ('stdev', 'pstdev'):
                cands = {math.floor(e), math.ceil(e), round(e)}
                ok = any(g == math.isqrt(max(v, 0)) for v in cands)
                desc = f'floor sqrt of the rounded variance {float(e):.3f}'
            elif fn == 'mode':
                ok = g == e
                desc = f'{e}'
                if not ok:
                    cnt = {v: X.count(v) for v in X}
                    top = max(cnt.values())
                    modes = [v for v in cnt if cnt[v] == top]
                    feats = dict(feats, multimodal=len(modes) > 1, result_is_a_mode=g in modes, result_is_min_mode=g == min(modes))
            else:
                ok = g in (math.floor(e), math.ceil(e)) and abs(Fr(g) - e) <= Fr(1, 2)
                desc = f'nearest integer of {float(e):.4f}'
            if not ok:
                rec.violation(f'{what}: {fn}({X}{", " + str(Y) if Y else ""}{", n=" + str(nq) if "quantiles" in fn else ""})[{k}] = {g}, expected {desc}', dict(feats, mechanism='wrong-value'), {'case': case}, case=case)
        else:
            unit = Fr(1, 1 << f)
            g = Fr(g)
            if fn in ('median_low', 'median_high', 'mode'):
                tol = 0
            elif fn == 'median':
                tol = 4 * unit * (1 + mx)
            elif fn in ('quantiles_e', 'quantiles_i'):
                # linear inter-/extrapolation x[j-1]*(n-d)/n + x[j]*d/n with public weights that may exceed 1 for tiny data sets
                tol = 8 * unit * (1 + mx) * (1 + nq)
            elif fn in ('mean',):
                tol = unit * 8 * (1 + n * mx)
            elif fn in ('variance', 'pvariance', 'covariance'):
                tol = unit * 64 * n * (1 + mx) ** 2
            elif fn in ('stdev', 'pstdev'):
                # sqrt of a variance known up to tol_v: |sqrt(a) - sqrt(b)| <= sqrt(|a-b|)
                tol_v = unit * 64 * n * (1 + mx) ** 2
                lo, hi = max(e - tol_v, 0), e + tol_v
                ok = math.sqrt(lo) - 2 * float(unit) - 1e-9 <= float(g) <= math.sqrt(hi) + 2 * float(unit) + 1e-9
                if not ok:
                    rec.violation(f'{what}: {fn} = {float(g)}, variance is {float(e):.6f} (sqrt {math.sqrt(e):.6f})', dict(feats, mechanism='wrong-value'), {'case': case}, case=case)
                continue
            elif fn == 'correlation':
                _, sxy, sxx, syy = e
                if sxx < 1 or syy < 1:
                    rec.count('skipped_ill_conditioned')
                    continue
                ev = float(sxy) / math.sqrt(sxx * syy)
                # quotient by C02's division bound 16(1+|dividend|) units, plus the error of the rounded square roots in the divisor
                tolc = float(unit) * (16 * (1 + abs(float(sxy))) + 64) + 4 * float(unit) * abs(ev) * (1 + math.sqrt(float(sxx)) + math.sqrt(float(syy))) / max(1.0, math.sqrt(float(sxx * syy)))
                if abs(float(g) - ev) > tolc:
                    rec.violation(f'{what}: correlation = {float(g)}, expected {ev:.6f}', dict(feats, mechanism='wrong-value'), {'case': case}, case=case)
                continue
            elif fn == 'linear_regression':
                sxx = sum((a - statistics.mean(X)) ** 2 for a in X)
                if sxx < 1:
                    rec.count('skipped_ill_conditioned')
                    continue
                Xm, Ym = statistics.mean(X), statistics.mean(Y)
                sxy_ = sum((a - Xm) * (b - Ym) for a, b in zip(X, Y))
                tol_slope = unit * (16 * (1 + abs(sxy_)) + 64 * n * (1 + mx) ** 2 / max(sxx, 1))
                tol = tol_slope if k == 0 else tol_slope * (1 + abs(Xm)) + 16 * unit * (1 + mx)
            if abs(g - e) > tol:
                if fn == 'mode':
                    cnt = {v: X.count(v) for v in X}
                    top = max(cnt.values())
                    modes = [v for v in cnt if cnt[v] == top]
                    feats = dict(feats, multimodal=len(modes) > 1, result_is_a_mode=any(abs(g - Fr(v)) == 0 for v in modes), result_is_min_mode=g == Fr(min(modes)))
                rec.violation(f'{what}: {fn}({[float(v) for v in X][:8]}...)[{k}] = {float(g)}, expected {float(e):.6f} (tolerance {float(tol):.2e})', dict(feats, mechanism='wrong-value'), {'case': case}, case=case)
            elif tol:
                rec.seen('max_error_over_tolerance_pct', min(100, int(100 * abs(g - e) / tol) // 10 * 10))


def run(shard, rec):
    from vlib import env
    env.prepare()
    from vlib import sim
    ns = sim.install()
    rng = random.Random(f"c34/{shard['seed']}/{shard['name']}")
    kind = shard['kind']
    if kind in ('m1', 'probe'):
        mpc = ns.default_rt
        sim.CUR.set(mpc)
        out = lambda x: mpc.run(mpc.output(x))
        if kind == 'probe':
            todo = [('int', 'mode', [5, 6, -3], None, 4), ('int', 'mode', [2, 2, 1, 1], None, 4), ('int', 'mode', [7, 1], None, 4)]
        else:
            todo = []
            tp = shard['type']
            for _ in range(shard['cases']):
                fn = rng.choice(INT_FUNCS if tp == 'int' else FXP_FUNCS)
                n = rng.randint(1, 12)
                if fn in ('quantiles_e', 'quantiles_i') and rng.random() < 0.5:
                    n = rng.randint(13, 26)            # exactly two order statistics with indices of 8 and above occur only from here on
                if fn in ('variance', 'stdev', 'covariance', 'correlation', 'linear_regression', 'quantiles_e', 'quantiles_i'):
                    n = max(n, 2)
                X = gen_data(rng, tp, n)
                if tp == 'fxp' and fn == 'mode':
                    X = [float(v) for v in gen_data(rng, 'int', n)]        # mode is defined for discrete data: integral values required (documented ValueError otherwise)
                Y = gen_data(rng, tp, n) if fn in ('covariance', 'correlation', 'linear_regression') else None
                if tp == 'fxp' and fn == 'correlation' and rng.random() < 0.5:
                    # moderate spread: sums of squared deviations around 10^3 each (their product far above 2^16), correlated or not
                    n = rng.randint(6, 10)
                    X = [rng.randint(0, 36 * 4) / 4 for _ in range(n)]
                    slope = rng.choice([-1, 0, 1])
                    Y = [min(40.0, max(-40.0, slope * x + rng.randint(-12 * 4, 12 * 4) / 4)) if slope else rng.randint(0, 36 * 4) / 4 for x in X]
                todo.append((tp, fn, X, Y, rng.randint(1, 10)))
        for (tp, fn, X, Y, nq) in todo:
            T = mpc.SecInt(32) if tp == 'int' else mpc.SecFxp(32, 16)
            case = [shard['name'], tp, fn, [str(v) for v in X], [str(v) for v in Y] if Y else None, nq]
            if not rec.wants(case):
                continue
            what = f'm=1 {tp}'
            with rec.guard(f'{what} {fn}({X})', case, {'fn': fn, 'type': tp, 'mechanism': 'exception'}):
                r = call(mpc, fn, [T(v) for v in X], [T(v) for v in Y] if Y else None, nq)
                got = out(r) if not isinstance(r, list) or r else []
                FX = [Fr(v) for v in X]
                FY = [Fr(v) for v in Y] if Y else None
                judge(rec, what, case, tp, fn, FX, FY, nq, got)
                if len(X) >= 2 and fn != 'correlation':
                    xl, yl = [T(v) for v in X], [T(v) for v in Y] if Y else None
                    out(call(mpc, fn, xl, yl, nq))
                    xl[0], xl[-1] = xl[-1], xl[0] + 1
                    X2 = list(X)
                    X2[0], X2[-1] = X2[-1], X2[0] + 1
                    if yl:
                        yl.reverse()
                    got2 = out(call(mpc, fn, xl, yl, nq))
                    rec.count('same_list_object_reevaluated_after_change')
                    judge(rec, what + ' (same list object changed in place and evaluated again)', case, tp, fn, [Fr(v) for v in X2], [Fr(v) for v in Y[::-1]] if Y else None, nq, got2)
            rec.case(case, nontrivial=len(X) >= 3 and len(set(X)) > 1, sample={'type': tp, 'fn': fn, 'data': X[:6]} if rng.random() < 0.02 else None)
        return
    m, t, no_prss = shard['cfg']
    for ci in range(shard['cases']):
        tp = rng.choice(['int', 'fxp'])
        fns = rng.sample(INT_FUNCS if tp == 'int' else [f for f in FXP_FUNCS if f not in ('correlation', 'mode')], 2)
        n = rng.randint(3, 7)
        X = gen_data(rng, tp, n)
        Y = gen_data(rng, tp, n)
        nq = rng.randint(2, 5)
        j2, v2 = rng.randrange(n), gen_data(rng, tp, 1)[0]
        X2 = list(X)
        X2[j2] = v2
        Y2 = Y[::-1]
        case = [shard['name'], tp, fns, [str(v) for v in X], [str(v) for v in Y], nq, j2, str(v2)]
        if not rec.wants(case):
            continue

        async def program(mpc, pid, tp=tp, fns=fns, X=X, Y=Y, nq=nq, j2=j2, v2=v2):
            T = mpc.SecInt(32) if tp == 'int' else mpc.SecFxp(32, 16)
            mk = (lambda v: T(v)) if tp == 'int' else (lambda v: T(v, integral=False))
            xs = mpc.input([mk(v if pid == 0 else 0) for v in X], senders=0)
            ys = mpc.input([mk(v if pid == 0 else 0) for v in Y], senders=0)
            res = []
            for fn in fns:
                # the data lists belong to the caller, who overwrites them right after the call: the result is that of the data as passed
                xa, ya = list(xs), list(ys)
                r = call(mpc, fn, xa, ya, nq)
                xa[:] = [mk(77)] * len(xa)
                ya[:] = [mk(-55 + i) for i in range(len(ya))]
                res.append(await mpc.output(r))
            # several order-statistic computations pending at once, on data from different senders, awaited in another order
            sel = [f_ for f_ in ('median', 'median_low', 'median_high', 'quantiles_e') if tp == 'int' or f_ != 'median'][:3]
            zs = mpc.input([mk(v if pid == len(mpc.parties) - 1 else 0) for v in Y], senders=len(mpc.parties) - 1)
            pend = [call(mpc, sel[0], list(xs), None, nq), call(mpc, sel[1], list(zs), None, nq), call(mpc, sel[2], list(xs), None, nq), call(mpc, sel[0], list(zs), None, nq)]
            outs_ = [None] * 4
            for j_ in (2, 0, 3, 1):
                outs_[j_] = await mpc.output(pend[j_])
            res.append(('concurrent', sel, outs_))
            for fn in fns:
                # one list object evaluated, changed in place, evaluated again: the second result is that of the changed data
                xl, yl = list(xs), list(ys)
                await mpc.output(call(mpc, fn, xl, yl, nq))
                xl[j2] = mk(v2)
                yl.reverse()
                res.append(await mpc.output(call(mpc, fn, xl, yl, nq)))
            return res
        w = sim.World(m, t, no_prss, seed=rng.randrange(1 << 30), policy=rng.choice(sim.POLICIES)).run(program)
        res = w.ok_results()
        what = f'{shard["name"]} {tp}'
        if res is None:
            rec.violation(f'{what} {fns}: run did not complete {w.status} {[r for r in w.results() if r[0] == "EXC"][:1]} {w.error_summaries()[:1]}', {'mechanism': 'no-completion', 'type': tp}, {'case': case}, case=case)
            continue
        conc = [r_ for r_ in res[0] if isinstance(r_, tuple) and r_ and r_[0] == 'concurrent']
        res = [[r_ for r_ in pr if not (isinstance(r_, tuple) and r_ and r_[0] == 'concurrent')] for pr in res]
        for _, sel, outs_ in conc:
            for fn_, data_, got in zip([sel[0], sel[1], sel[2], sel[0]], [X, Y, X, Y], outs_):
                rec.count('concurrent_selections_checked')
                judge(rec, what + ' (four order-statistic computations pending together)', case, tp, fn_, [Fr(v) for v in data_], None, nq, got)
        for fn, got in zip(fns, res[0]):
            FX = [Fr(v) for v in X]
            FY = [Fr(v) for v in Y]
            judge(rec, what + ' (caller overwrites its lists after the call)', case, tp, fn, FX, FY if fn in ('covariance', 'correlation', 'linear_regression') else None, nq, got)
        for fn, got in zip(fns, res[0][len(fns):]):
            FX = [Fr(v) for v in X2]
            FY = [Fr(v) for v in Y2]
            rec.count('same_list_object_reevaluated_after_change')
            judge(rec, what + ' (same list object changed in place and evaluated again)', case, tp, fn, FX, FY if fn in ('covariance', 'correlation', 'linear_regression') else None, nq, got)
        if tp == 'int' and any(r != res[0] for r in res):
            rec.violation(f'{what} {fns}: parties obtained different results', {'mechanism': 'parties-disagree', 'type': tp}, {'case': case}, case=case)
        rec.case(case, nontrivial=len(set(X)) > 1, sample={'config': shard['name'], 'type': tp, 'fns': fns, 'X': X} if ci == 0 else None)
    rec.count('functions_seen', 0)
