"""C39 — secure type and party configuration parameters are valid."""
import os
import sys
import itertools
import random
import subprocess

PROPERTY = 'C39'
ENGINE = 'SIM'
LEVEL = 'exploration'
TECHNIQUE = 'runtime contract monitor on the real SecFld constructor over the full cross-product of an argument grid in every (m,t) configuration, on the real runtime.setup() in subprocesses for all (m,t), and on the field of every secure type constructed'
RULE = ('case = ((m,t), SecFld argument combination) or (setup argv); oracle derived from the arguments alone (independent prime-power factorisation): '
        'consistent requests yield exactly the requested order/characteristic/degree (>= min_order), contradictory requests are refused; lifted iff t>0 and m >= order; '
        'non-trivial = combination names at least two arguments or is a lifting case; distinct by ((m,t), arguments)')
EXHAUSTIVE = 'cross-product grid: order in {None,2,3,4,7,8,9,101,256}, modulus in {None,2,7,11,"x^2+x+1","x^3+x+1","x^8+x^4+x^3+x+1"}, char in {None,2,3,7}, ext_deg in {None,1,2,3,8}, min_order in {None,2,5,8,100,257} in 9 configurations; setup() for all m <= 7, t <= 4'
ASSUMPTIONS = ['"contradictory" = no field satisfies all given arguments simultaneously', 'oracle: vlib/oracles/ref.py factorisation and irreducibility']
REQUIRE = {'any': {'secfld_calls': 3000, 'setup_runs': 30, 'lifted_types': 5}}
LEVEL_TEXT = 'exploration, complete over the argument grid per configuration'
LEVEL_NOTE = 'trusted: vlib/oracles/ref.py'
TIMEOUT = {'quick': 900, 'thorough': 6000}

from vlib.runner import config_name

ORDERS = [None, 2, 3, 4, 7, 8, 9, 101, 256]
MODULI = [None, 2, 7, 11, 'x^2+x+1', 'x^3+x+1', 'x^8+x^4+x^3+x+1', 'x^2+1']
CHARS = [None, 2, 3, 7]
DEGS = [None, 1, 2, 3, 8]
MINS = [None, 2, 5, 8, 100, 257]
CONFIGS = [(1, 0), (2, 0), (3, 1), (4, 1), (5, 2), (7, 3), (7, 1), (5, 0), (6, 2)]


def shards(tier, seed):
    out = [{'name': f'secfld-m{m}t{t}', 'kind': 'secfld', 'm': m, 't': t} for (m, t) in (CONFIGS if tier == 'quick' else [(m, t) for m in range(1, 8) for t in range(0, (m + 1) // 2) if 2 * t < m])]
    # the same grid on runtimes that were constructed with another threshold and got t through the public setter (as demos/parallelsort.py does)
    for (m, t, t0) in [(3, 1, 0), (5, 2, 0), (4, 1, 0), (5, 0, 2), (7, 3, 1)]:
        out.append({'name': f'secfld-m{m}t{t}-assigned-from-t{t0}', 'kind': 'secfld', 'm': m, 't': t, 't0': t0})
    out.append({'name': 'setup', 'kind': 'setup'})
    out.append({'name': 'setup-noprss', 'kind': 'setup', 'extra': ['--no-prss']})
    out.append({'name': 'setup-K0', 'kind': 'setup', 'extra': ['-K', '0']})
    out.append({'name': 'setup-env-noprss', 'kind': 'setup', 'extra': [], 'env': {'MPYC_NOPRSS': '1'}})
    for (m, t) in [(3, 1), (5, 2), (7, 3), (7, 1), (4, 1), (2, 0), (6, 2)] + ([(m, t) for m in range(8, 14) for t in (1, (m - 1) // 2)] if tier != 'quick' else [(11, 5), (13, 1)]):
        out.append({'name': f'types-m{m}t{t}', 'kind': 'types', 'm': m, 't': t})
    return out


def parse_poly(sx, p):
    """'x^3+x+1' -> coefficient list low->high over Z_p (harness-side parser, independent of gfpx)"""
    coeffs = {}
    for term in sx.replace('-', '+-').split('+'):
        term = term.strip()
        if not term:
            continue
        if 'x' not in term:
            coeffs[0] = coeffs.get(0, 0) + int(term)
            continue
        c, _, e = term.partition('x')
        c = int(c) if c not in ('', '-') else (1 if c == '' else -1)
        e = int(e[1:]) if e.startswith('^') else 1
        coeffs[e] = coeffs.get(e, 0) + c
    d = max(coeffs)
    return [coeffs.get(i, 0) % p for i in range(d + 1)]


def expectation(order, modulus, char, deg, mn):
    """Returns ('ok', p, d or None, min_order) if some field satisfies all constraints (with what is pinned), ('contradiction', why) otherwise, or ('skip', why)."""
    from vlib.oracles import ref
    p_req, d_req = char, deg
    if order is not None:
        fz = ref.factorize(order)
        if len(fz) != 1:
            return ('skip', 'order not a prime power')
        (p0, d0), = fz.items()
        if p_req is not None and p_req != p0:
            return ('contradiction', 'order vs char')
        if d_req is not None and d_req != d0:
            return ('contradiction', 'order vs ext_deg')
        p_req, d_req = p0, d0
    if isinstance(modulus, str):
        p_m = p_req or 2
        pol = parse_poly(modulus, p_m)
        pol = ref.ptrim(pol)
        if len(pol) < 2:
            return ('skip', 'degenerate modulus')
        if not ref.is_irreducible_bf(pol, p_m):
            return ('contradiction', 'reducible modulus')
        if d_req is not None and d_req != len(pol) - 1:
            return ('contradiction', 'modulus degree vs ext_deg/order')
        p_req, d_req = p_m, len(pol) - 1
    elif isinstance(modulus, int):
        if p_req is not None and modulus > p_req:
            return ('skip', 'int modulus above char is read as a polynomial')
        if not ref.is_prime_td(modulus):
            return ('contradiction', 'composite modulus')
        if p_req is not None and p_req != modulus:
            return ('contradiction', 'int modulus vs char')
        if d_req is not None and d_req != 1:
            return ('contradiction', 'prime modulus vs ext_deg')
        p_req, d_req = modulus, 1
    if mn is not None and p_req is not None and d_req is not None and p_req ** d_req < mn:
        return ('contradiction', 'order below min_order')
    return ('ok', p_req, d_req, mn)


def run(shard, rec):
    from vlib import env
    env.prepare()
    if shard['kind'] == 'setup':
        code = ("import sys; sys.path.insert(0, %r)\n"
                "import mpyc.runtime as r\n"
                "mpc = r.mpc\n"
                "print('SETUP-OK', len(mpc.parties), mpc.threshold, mpc.pid)\n") % env.REPO
        for mode, m, t in [(mode, m, t) for mode in ('-M', '-P') for m in range(1, 8) for t in list(range(0, 5)) + [None]]:
            if True:
                case = ['setup', m, t] + ([mode] if mode != '-M' else [])
                if not rec.wants(case):
                    continue
                extra = shard.get('extra', [])
                if extra or shard.get('env'):
                    case = case + [shard['name']]
                if mode == '-M':
                    argv = ['-M', str(m), '-I', '0', '--no-log'] + (['-T', str(t)] if t is not None else []) + extra
                else:                              # parties given by address, as in a distributed deployment (setup() does not connect)
                    argv = [x for i in range(m) for x in ('-P', f'localhost:{12000 + i}')] + ['-I', '0', '--no-log'] + (['-T', str(t)] if t is not None else []) + extra
                p = subprocess.run([sys.executable, '-c', code] + argv, stdout=subprocess.PIPE, stderr=subprocess.STDOUT, text=True, timeout=60,
                                   env=dict(os.environ, PYTHONDONTWRITEBYTECODE='1', MPYC_NONUMPY='1', **shard.get('env', {})))
                rec.count('setup_runs')
                okline = [l for l in p.stdout.splitlines() if l.startswith('SETUP-OK')]
                built = bool(okline)
                eff_t = t if t is not None else (m - 1) // 2
                should = 2 * eff_t < m
                if built != should:
                    rec.violation(f'runtime.setup() with {mode} x {m} -T{t} {" ".join(extra)} {shard.get("env", "")}: {"built a runtime" if built else "refused"} although 2t {"<" if should else ">="} m; output {p.stdout[-200:]!r}',
                                  {'mechanism': 'setup-threshold-check', 'fn': 'setup'}, {'case': case}, case=case)
                elif built:
                    mm, tt, pid = okline[0].split()[1:4]
                    if int(mm) != m or int(tt) != eff_t:
                        rec.violation(f'runtime.setup() with -M{m} -T{t}: runtime has m={mm}, t={tt}', {'mechanism': 'setup-values', 'fn': 'setup'}, {'case': case}, case=case)
                rec.case(case, nontrivial=t is not None and m > 1, sample={'argv': argv, 'built': built} if m == 4 else None)
        return
    from vlib import sim
    from vlib.oracles import ref
    sim.install()
    m, t = shard['m'], shard['t']
    if shard['kind'] == 'types':
        return run_types(shard, rec, sim, m, t)
    w = sim.World(m, shard.get('t0', t), seed=1)
    if 't0' in shard:
        for i in range(m):
            w.ctx[i].run(setattr, w.rts[i], 'threshold', t)
        w.t = t
        rec.count('worlds_with_threshold_assigned')
    results = []

    def body():
        from mpyc import sectypes, gfpx
        for order, modulus, char, deg, mn in itertools.product(ORDERS, MODULI, CHARS, DEGS, MINS):
            kw = {k: v for k, v in (('order', order), ('modulus', modulus), ('char', char), ('ext_deg', deg), ('min_order', mn)) if v is not None}
            try:
                T = sectypes.SecFld(**kw)
                base = T.subfield or T.field
                results.append((kw, 'ok', int(base.order), int(base.characteristic), int(base.ext_deg), T.subfield is not None, int(T.field.order),
                                [int(c) for c in base.modulus] if base.ext_deg > 1 else None))
            except AssertionError as e:
                results.append((kw, 'refused', 'AssertionError', str(e)[:60]))
            except (ValueError, TypeError, ZeroDivisionError) as e:
                results.append((kw, 'refused', type(e).__name__, str(e)[:60]))
            except Exception as e:
                results.append((kw, 'error', type(e).__name__, str(e)[:80]))
    w.ctx[0].run(body)
    for r in results:
        kw = r[0]
        case = [shard['name'], sorted(kw.items())]
        if not rec.wants(case):
            continue
        rec.count('secfld_calls')
        exp = expectation(kw.get('order'), kw.get('modulus'), kw.get('char'), kw.get('ext_deg'), kw.get('min_order'))
        what = f'm={m},t={t}: SecFld({", ".join(f"{k}={v!r}" for k, v in kw.items())})'
        nontriv = len(kw) >= 2
        if exp[0] == 'skip':
            rec.count('skipped_out_of_domain')
            continue
        if r[1] == 'error':
            rec.violation(f'{what}: raised {r[2]}: {r[3]}', {'mechanism': 'unexpected-exception', 'exc': r[2]}, {'case': case}, case=case)
        elif exp[0] == 'contradiction':
            if r[1] == 'ok':
                rec.violation(f'{what}: contradictory arguments ({exp[1]}) were accepted, giving GF({r[3]}^{r[4]})', {'mechanism': 'contradiction-accepted', 'why': exp[1]}, {'case': case}, case=case)
        else:
            _, p, d, mn = exp
            if r[1] == 'refused':
                # a consistent request may only be refused for the documented unsupported case: extension field too small for the parties
                qmin = (p or 2) ** (d or 1)              # smallest order the request can mean (characteristic defaults to 2)
                rec.violation(f'{what}: consistent request refused with {r[2]} {r[3]!r}',
                              {'mechanism': 'consistent-request-refused', 'ext_deg_gt_1': bool(d and d > 1), 't_gt_0': t > 0, 'm_ge_smallest_possible_order': m >= qmin},
                              {'case': case}, case=case)
            else:
                _, _, q, pp, dd, lifted, big_q, modl = r
                bad = None
                if p is not None and pp != p:
                    bad = f'characteristic {pp}, requested {p}'
                elif d is not None and dd != d:
                    bad = f'extension degree {dd}, requested {d}'
                elif mn is not None and q < mn:
                    bad = f'order {q} below min_order {mn}'
                elif kw.get('order') is not None and q != kw['order']:
                    bad = f'order {q}, requested {kw["order"]}'
                elif isinstance(kw.get('modulus'), str) and modl != parse_poly(kw['modulus'], pp):
                    bad = f'modulus {modl}, requested {kw["modulus"]}'
                elif pp ** dd != q or not ref.is_prime_td(pp):
                    bad = f'inconsistent field description p={pp}, d={dd}, q={q}'
                elif dd > 1 and not ref.is_irreducible_bf(modl, pp):
                    bad = f'modulus {modl} is reducible'
                if bad:
                    rec.violation(f'{what}: {bad}', {'mechanism': 'wrong-field'}, {'case': case}, case=case)
                should_lift = t > 0 and m >= q
                if lifted != should_lift:
                    rec.violation(f'{what}: order {q}, m={m}, t={t}: lifted={lifted}, expected {should_lift}', {'mechanism': 'lifting'}, {'case': case}, case=case)
                elif lifted:
                    rec.count('lifted_types')
                    if not (big_q > m and big_q % q == 0 and ref.factorize(big_q).keys() == {pp}):
                        rec.violation(f'{what}: lifted to a field of order {big_q} (need a power of {pp} above m={m})', {'mechanism': 'lifting-field'}, {'case': case}, case=case)
                if t > 0 and big_q <= m:
                    rec.violation(f'{what}: secure type works over a field of order {big_q} <= m={m} with t={t}', {'mechanism': 'field-not-larger-than-m'}, {'case': case}, case=case)
        rec.case(case, nontrivial=nontriv, sample={'config': [m, t], 'args': kw, 'outcome': r[1:6]} if len(kw) == 3 and kw.get('order') == 9 and r[1] == 'ok' and kw.get('ext_deg') == 2 and 'min_order' in kw else None)
    if t == 0 or True:
        rec.count('lifted_types', 0)


def run_types(shard, rec, sim, m, t):
    """every secure type that the runtime agrees to construct in configuration (m, t) - at any security parameter, with generated or caller-supplied primes -
    has a field with more elements than there are parties whenever t > 0 (else party number q would hold the secret itself as its share)"""
    PRIMES = [3, 5, 7, 11, 13, 17, 19, 23, 31, 61, 127, 257, 65537, 2 ** 31 - 1, 2 ** 61 - 1]
    for k in (0, 1, 2, 8, 30):
        assigned = k in (1, 8) and t > 0
        w = sim.World(m, 0 if assigned else t, seed=1, sec_param=k)
        if assigned:                              # constructed with threshold 0, then t assigned through the public setter
            for i in range(m):
                w.ctx[i].run(setattr, w.rts[i], 'threshold', t)
            w.t = t
        built = []

        def body():
            mpc = sim.NS.proxy
            reqs = []
            for l in (0, 1, 2, 3, 4, 8, 32):
                reqs.append((f'SecInt({l})', lambda l=l: mpc.SecInt(l)))
                for P in PRIMES:
                    reqs.append((f'SecInt({l}, p={P})', lambda l=l, P=P: mpc.SecInt(l, p=P)))
                for f in (0, 1, l // 2):
                    if f <= l:
                        reqs.append((f'SecFxp({l}, {f})', lambda l=l, f=f: mpc.SecFxp(l, f)))
                        for P in PRIMES:
                            reqs.append((f'SecFxp({l}, {f}, p={P})', lambda l=l, f=f, P=P: mpc.SecFxp(l, f, p=P)))
            for l, e in ((8, 3), (16, 5), (32, 8)):
                reqs.append((f'SecFlt({l}, e={e})', lambda l=l, e=e: mpc.SecFlt(l, e=e)))
            for q in (2, 3, 4, 5, 7, 8, 9, 11, 13, 16, 27, 101, 256):
                reqs.append((f'SecFld({q})', lambda q=q: mpc.SecFld(q)))
            for name, mk in reqs:
                try:
                    T = mk()
                except (AssertionError, ValueError, TypeError) as ex:
                    built.append((name, None, type(ex).__name__))
                    continue
                fields = [T.field] if hasattr(T, 'field') and T.field is not None else []
                if hasattr(T, 'significand_type'):
                    fields = [T.significand_type.field, T.exponent_type.field]
                built.append((name, [int(F.order) for F in fields], None))
        w.ctx[0].run(body)
        w.dispose()
        for name, orders, exc in built:
            case = [shard['name'], k, name]
            if not rec.wants(case):
                continue
            rec.count('sectype_requests')
            if orders is None:
                rec.count('sectype_requests_refused')
            else:
                rec.count('sectype_fields_checked', len(orders))
                small = [q for q in orders if q <= m]
                if t > 0 and small:
                    rec.violation(f'm={m},t={t},k={k}: {name} was constructed with a field of {small[0]} elements, not more than the {m} parties', {'mechanism': 'field-not-larger-than-m', 'fn': name.split('(')[0]}, {'case': case}, case=case)
                if orders and min(orders) <= 2 * m:
                    rec.count('fields_near_party_count')
            rec.case(case, nontrivial=orders is not None, sample={'config': [m, t], 'k': k, 'type': name, 'field_orders': [str(q) for q in orders]} if orders and name in ('SecInt(1)', 'SecFld(4)') and k == 0 else None)
