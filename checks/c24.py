"""C24 — irreducibility tests and irreducible-modulus search are correct."""
import random

PROPERTY = 'C24'
ENGINE = 'UNIT'
LEVEL = 'exploration'
TECHNIQUE = 'runtime oracle monitor: real is_irreducible / next_irreducible / find_irreducible / GF(poly) against brute-force factor search over all monic polynomials of lower degree'
RULE = ('case = (p, polynomial as integer, function); all polynomials of bounded degree over p in {2,3,5,7}; '
        'non-trivial = degree >= 2; distinct by (p, function, polynomial)')
EXHAUSTIVE = 'all polynomials of degree <= 7 (p=2), <= 4 (p=3), <= 3 (p=5,7) [thorough: 13 (p=2), 8 (p=3), 5 (p=5), 4 (p=7), 3 (p=11,13)]; every one as is_irreducible, next_irreducible and GF modulus argument'
ASSUMPTIONS = ['oracle: brute-force trial division by all monic polynomials of degree <= deg/2 (vlib/oracles/ref.py)',
               'next_irreducible ranges over monic polynomials, as its docstring states']
REQUIRE = {'any': {'is_irreducible_checked': 800, 'next_irreducible_checked': 800, 'gf_modulus_checked': 300, 'find_irreducible_checked': 8}}
LEVEL_TEXT = 'exploration, exhaustive over all polynomials of bounded degree over small primes'
LEVEL_NOTE = 'trusted: vlib/oracles/ref.py brute-force factor search'


def shards(tier, seed):
    deg = {2: 7, 3: 4, 5: 3, 7: 3} if tier == 'quick' else {2: 13, 3: 8, 5: 5, 7: 4, 11: 3, 13: 3}
    return [{'name': f'p{p}', 'p': p, 'deg': d} for p, d in deg.items()]


def run(shard, rec):
    from vlib import env
    env.prepare()
    from mpyc import gfpx, finfields
    from vlib.oracles import ref as R
    p, D = shard['p'], shard['deg']
    P = gfpx.GFpX(p)
    N = p ** (D + 1)
    feats = {'p': 'two' if p == 2 else 'odd'}
    irr = {}
    for ai in range(N):
        irr[ai] = R.is_irreducible_bf(R.pfromint(ai, p), p)
    # monic irreducibles in integer order, also one degree higher so that "next" is defined near the top
    monic_irr = sorted(ai for ai in range(N) if irr[ai] and R.pfromint(ai, p)[-1] == 1)
    top = [ai for ai in range(N, 2 * N) if R.is_irreducible_bf(R.pfromint(ai, p), p)][:1]       # leading coeff 1 in [N, 2N)
    monic_all = monic_irr + top
    rng = random.Random(f"c24/{shard['seed']}/{p}")

    def next_monic_irr(ai):
        import bisect
        k = bisect.bisect_right(monic_all, ai)
        return monic_all[k] if k < len(monic_all) else None

    # the same coefficient lists are first put to the irreducibility test over OTHER primes (whatever is remembered must be remembered per prime)
    for p2 in (3, 5, 7, 11, 13):
        if p2 == p:
            continue
        P2 = gfpx.GFpX(p2)
        for ai in range(0, N, 1 if N <= 4000 else 3):
            la2 = R.pfromint(ai, p)
            if la2 and max(la2) < p2 and len(la2) >= 3:
                P2.is_irreducible(P2(la2))
                rec.count('other_prime_warmups')
    for ai in range(N):
        la = R.pfromint(ai, p)
        case = [p, str(ai)]
        if not rec.wants(case):
            continue
        with rec.guard(f'p={p} poly {ai}', case, dict(feats, op='exception')):
            got = P.is_irreducible(ai)
            rec.count('is_irreducible_checked')
            if bool(got) != irr[ai]:
                rec.violation(f'p={p}: is_irreducible({la}) = {got}, brute force says {irr[ai]}', dict(feats, op='is_irreducible'), {'case': case}, case=case)
            exp = next_monic_irr(ai)
            if exp is not None:
                nx = int(P.next_irreducible(ai))
                rec.count('next_irreducible_checked')
                if nx != exp:
                    rec.violation(f'p={p}: next_irreducible({la}) = {R.pfromint(nx, p)}, smallest monic irreducible above is {R.pfromint(exp, p)}',
                                  dict(feats, op='next_irreducible', arg_below_p=ai < p, expected_is_x=exp == p, got_is_x_plus_1=nx == p + 1), {'case': case}, case=case)
            if len(la) >= 2:
                rec.count('gf_modulus_checked')
                try:
                    f = finfields.GF(P(ai))
                    accepted = True
                except ValueError:
                    accepted = False
                if accepted != irr[ai]:
                    rec.violation(f'p={p}: GF({la}) {"accepted" if accepted else "rejected"} although the polynomial is {"irreducible" if irr[ai] else "reducible"}',
                                  dict(feats, op='GF-modulus'), {'case': case}, case=case)
                elif accepted and (f.order != p ** (len(la) - 1)):
                    rec.violation(f'p={p}: GF({la}).order = {f.order}', dict(feats, op='GF-order'), {'case': case}, case=case)
        rec.case(case, nontrivial=len(la) >= 3, sample={'p': p, 'poly': la, 'irreducible': irr[ai]} if rng.random() < 0.004 else None)
    for d in range(1, D + 1):
        case = [p, 'find', d]
        if not rec.wants(case):
            continue
        with rec.guard(f'find_irreducible({p},{d})', case, dict(feats, op='exception')):
            got = int(finfields.find_irreducible(p, d))
            exp = min(ai for ai in monic_irr if len(R.pfromint(ai, p)) == d + 1)
            rec.count('find_irreducible_checked')
            if got != exp:
                rec.violation(f'find_irreducible({p},{d}) = {R.pfromint(got, p)}, smallest monic irreducible of degree {d} is {R.pfromint(exp, p)}',
                              dict(feats, op='find_irreducible', degree=d, expected_is_x=exp == p, got_is_x_plus_1=got == p + 1), {'case': case}, case=case)
        rec.case(case, nontrivial=d >= 2)
    # ---- beyond the enumerated degrees: products of irreducible factors of mixed degrees (reducible by construction) and irreducibles of degree 5..8
    #      found by the brute-force oracle's own search; this is where degree-dependent shortcuts of the irreducibility test would show
    if p != 2 or True:
        by_deg = {}
        for ai in monic_irr:
            by_deg.setdefault(len(R.pfromint(ai, p)) - 1, []).append(R.pfromint(ai, p))
        patterns = [(2, 3), (1, 4), (2, 2, 3), (3, 4), (2, 5), (3, 5), (1, 2, 3), (2, 2), (3, 3), (1, 1, 3)]
        for pat in patterns:
            if any(d not in by_deg for d in pat) or sum(pat) > 9:
                continue
            for rep_ in range(6):
                facs = [rng.choice(by_deg[d]) for d in pat]
                prod = [1]
                for f_ in facs:
                    prod = R.pmul(prod, f_, p)
                case = [p, 'product', list(pat), prod]
                if not rec.wants(case):
                    continue
                with rec.guard(f'is_irreducible(product of degrees {pat})', case, dict(feats, op='exception')):
                    got = P.is_irreducible(P(prod))
                    rec.count('is_irreducible_checked')
                    rec.count('mixed_degree_products')
                    if got:
                        rec.violation(f'p={p}: is_irreducible({prod}) = True for a product of irreducible factors of degrees {pat}: {facs}', dict(feats, op='is_irreducible', kind='mixed-degree-product'), {'case': case}, case=case)
                    try:
                        finfields.GF(P(prod))
                        rec.violation(f'p={p}: GF({prod}) accepted a reducible modulus (factors of degrees {pat})', dict(feats, op='GF-modulus', kind='mixed-degree-product'), {'case': case}, case=case)
                    except ValueError:
                        pass
                rec.case(case, nontrivial=True)
        for d in range(D + 1, min(D + 4, 9) if p <= 7 else D + 1):
            case = [p, 'find-high', d]
            if not rec.wants(case) or p ** d > 3 * 10 ** 5:
                continue
            with rec.guard(f'find_irreducible({p},{d})', case, dict(feats, op='exception')):
                got = R.pfromint(int(finfields.find_irreducible(p, d)), p)
                rec.count('find_irreducible_checked')
                # independent search: first monic polynomial of degree d (integer order) without a factor of degree <= d/2
                exp = None
                for ai in range(p ** d, 2 * p ** d):
                    cand = R.pfromint(ai, p)
                    if R.is_irreducible_bf(cand, p):
                        exp = cand
                        break
                if got != exp:
                    rec.violation(f'find_irreducible({p},{d}) = {got}, smallest monic irreducible of degree {d} is {exp}', dict(feats, op='find_irreducible', degree=d, kind='high-degree'), {'case': case}, case=case)
            rec.case(case, nontrivial=True)
