"""C05 — secure floating-point arithmetic approximates float arithmetic."""
import random
import asyncio
import math
from fractions import Fraction as Fr

PROPERTY = 'C05'
ENGINE = 'SIM'
LEVEL = 'exploration'
TECHNIQUE = 'runtime monitoring: secure float input/output, +,-,*,/ and the six comparisons evaluated by real parties (m=1 wide, m>1 in several configurations); results judged with the statement\'s bounds in exact rational arithmetic'
RULE = ('case = (configuration, SecFlt(l), operation, operand pair); operands: powers of two, equal/opposite operands (cancellation), zero, wide exponent range; '
        'non-trivial = both operands nonzero and the operation is not a pure round trip; distinct by (config, l, op, operands)')
ASSUMPTIONS = ['u = 2^-(s-1) with s the significand length of SecFlt(l) (11 for l=16, 24 for l=32)', 'comparisons are only judged when |x-y| > 16u*max(|x|,|y|)']
REQUIRE = {'any': {'operations_checked': 800, 'roundtrips_checked': 150, 'comparisons_checked': 300}}
LEVEL_TEXT = 'exploration: m=1 (sync) wide sampling for SecFlt(16) and SecFlt(32); SIM in (2,0),(3,1) with and without PRSS,(5,2) with fewer cases (secure floats are expensive)'
LEVEL_NOTE = 'trusted: Python Fractions; float operands are exactly representable doubles'
TIMEOUT = {'quick': 1500, 'thorough': 12000}

from vlib.runner import config_name


def shards(tier, seed):
    k = 1 if tier == 'quick' else 8
    out = [{'name': f'm1-sync-l{l}-{j}', 'kind': 'sync', 'l': l, 'cases': 400 * k} for l in (16, 32) for j in range(4)]
    for c in [(2, 0, False), (3, 1, False), (3, 1, True), (5, 2, False)]:
        out.append({'name': config_name(c), 'kind': 'sim', 'cfg': list(c), 'cases': (40 if c[0] <= 3 else 12) * k})
    out.append({'name': 'probe-zero-alignment', 'kind': 'probe'})
    return out


def gen_operand(rng, s, emax):
    r = rng.random()
    if r < 0.08:
        return 0.0
    if r < 0.2:
        return rng.choice([-1, 1]) * 2.0 ** rng.randint(-emax, emax)
    mant = rng.randrange(1 << (s - 2), 1 << (s - 1)) / (1 << (s - 1))          # s-1 significant bits: exactly representable
    return rng.choice([-1, 1]) * mant * 2.0 ** rng.randint(-emax, emax)


def judge(op, x, y, got, u, rec, what, case, feats):
    X, Y = Fr(x), Fr(y)
    if op == 'io':
        rec.count('roundtrips_checked')
        if abs(Fr(got) - X) > 2 * u * abs(X):
            rec.violation(f'{what}: round trip of {x!r} gives {got!r} (allowed relative error 2u)', dict(feats, mechanism='roundtrip'), {'case': case}, case=case)
        return
    if op in ('lt', 'le', 'eq', 'ne', 'ge', 'gt'):
        if abs(X - Y) <= 16 * u * max(abs(X), abs(Y)):
            rec.count('comparisons_too_close_to_judge')
            return
        rec.count('comparisons_checked')
        exp = {'lt': X < Y, 'le': X <= Y, 'eq': X == Y, 'ne': X != Y, 'ge': X >= Y, 'gt': X > Y}[op]
        if bool(got) != exp:
            oz = (x == 0) != (y == 0)
            rec.violation(f'{what}: {x!r} {op} {y!r} = {got}', dict(feats, mechanism='comparison', one_operand_zero=oz,
                                                                 other_exponent_below_minus_4=(math.frexp(x if y == 0 else y)[1] < -3) if oz else False), {'case': case}, case=case)
        return
    rec.count('operations_checked')
    if op in ('add', 'sub'):
        exact = X + Y if op == 'add' else X - Y
        bound = 16 * u * max(abs(X), abs(Y))
    elif op == 'mul':
        exact = X * Y
        bound = 16 * u * abs(exact)
    else:
        exact = X / Y
        bound = 16 * u * abs(exact)
    err = abs(Fr(got) - exact)
    if err > bound:
        f2 = dict(feats, mechanism='arithmetic', op=op, one_operand_zero=(x == 0) != (y == 0),
                  other_exponent_below_minus_4=(math.frexp(x if y == 0 else y)[1] < -3) if (x == 0) != (y == 0) else False)
        rec.violation(f'{what}: {x!r} {op} {y!r} = {got!r}, exact {float(exact)!r}, error {float(err):.3e} > bound {float(bound):.3e} ({float(err / bound) if bound else float("inf"):.2f}x)',
                      f2, {'case': case}, case=case)


OPS = ['io', 'add', 'sub', 'mul', 'div', 'lt', 'le', 'eq', 'ne', 'ge', 'gt']


def apply(op, a, b):
    return {'add': lambda: a + b, 'sub': lambda: a - b, 'mul': lambda: a * b, 'div': lambda: a / b, 'lt': lambda: a < b, 'le': lambda: a <= b,
            'eq': lambda: a == b, 'ne': lambda: a != b, 'ge': lambda: a >= b, 'gt': lambda: a > b, 'io': lambda: a}[op]()


def run(shard, rec):
    budget_hits = [0]
    from vlib import env
    env.prepare()
    from vlib import sim
    ns = sim.install()
    rng = random.Random(f"c05/{shard['seed']}/{shard['name']}")
    kind = shard['kind']
    if kind in ('sync', 'probe'):
        mpc = ns.default_rt
        sim.CUR.set(mpc)
        if kind == 'probe':
            todo = [(l, op, x, y) for l in (16, 32) for op in ('sub', 'add') for (x, y) in ((0.0, 0.01), (0.0, -0.001953125), (0.0, 0.75))]
        else:
            l = shard['l']
            todo = []
            for _ in range(shard['cases']):
                s = {16: 11, 32: 24}[l]
                emax = 10 if l == 16 else 30
                op = rng.choice(OPS)
                x = gen_operand(rng, s, emax)
                y = gen_operand(rng, s, emax)
                r = rng.random()
                if r < 0.1:
                    y = x
                elif r < 0.2:
                    y = -x
                elif r < 0.3:
                    y = x * (1 + 2.0 ** -(s - 3))
                r = rng.random()
                if r < 0.25:                      # operands given as Python ints (constructor and operator coercion paths)
                    y = rng.choice([-1, 1]) * rng.choice([rng.randrange(1, 1 << min(s - 1, 10)), rng.randrange(1, 12), 3, 5, 7])
                    if r < 0.08:
                        x = rng.choice([-1, 1]) * rng.randrange(1, 1 << min(s - 1, 10))
                if op == 'div' and y == 0:
                    continue
                todo.append((l, op, x, y))
        for (l, op, x, y) in todo:
            secflt = mpc.SecFlt(l)
            s = secflt.significand_type.frac_length + 1 if False else {16: 11, 32: 24}[l]
            u = Fr(1, 1 << (s - 1))
            case = [shard['name'], l, op, repr(x), repr(y)]
            if not rec.wants(case):
                continue
            what = f'm=1 SecFlt({l})'
            feats = {'l': l}
            try:
                if isinstance(y, int) and op != 'io' and (x + y) % 2:
                    r = apply(op, secflt(x), y)               # public int operand coerced by the operator
                    rec.count('int_operand_coerced')
                else:
                    r = apply(op, secflt(x), secflt(y))
                    if isinstance(y, int):
                        rec.count('int_operand_constructed')
                got = mpc.run(mpc.output(r))
            except Exception as e:
                rec.violation(f'{what}: {x!r} {op} {y!r} raised {type(e).__name__}: {e}', dict(feats, mechanism='exception', op=op), {'case': case}, case=case)
                continue
            judge(op, x, y, got, u, rec, what, case, feats)
            rec.case(case, nontrivial=op != 'io' and x != 0 and y != 0, sample={'l': l, 'op': op, 'x': x, 'y': y, 'result': got} if rng.random() < 0.03 else None)
        return
    m, t, no_prss = shard['cfg']
    for ci in range(shard['cases']):
        l = rng.choice([16, 32]) if m <= 3 else 16
        s = {16: 11, 32: 24}[l]
        u = Fr(1, 1 << (s - 1))
        emax = 8
        ops = [rng.choice(OPS) for _ in range(3)]
        xs = [gen_operand(rng, s, emax) for _ in range(3)]
        ys = [gen_operand(rng, s, emax) or 1.0 for _ in range(3)]
        sseed = rng.randrange(1 << 30)
        policy = rng.choice(sim.POLICIES)
        case = [shard['name'], ci, l, ops, [repr(v) for v in xs], [repr(v) for v in ys]]
        if not rec.wants(case):
            continue

        async def program(mpc, pid, l=l, ops=ops, xs=xs, ys=ys, ci=ci):
            secflt = mpc.SecFlt(l)
            a = mpc.input([secflt(v if pid == 0 else 0.0) for v in xs], senders=0)
            b = mpc.input([secflt(v if pid == m - 1 else 1.0) for v in ys], senders=m - 1)
            rs = [apply(op, a[i], b[i]) for i, op in enumerate(ops)]
            if ci % 2:
                # all outputs pending at once (also to single receivers), awaited later and in another order, one party yielding in between
                futs = [mpc.output(r) for r in rs]
                extra = [mpc.output(rs[0], receivers=[0]), mpc.output(rs[1], receivers=[m - 1])]
                if pid == ci % m:
                    for _ in range(1 + ci % 3):
                        await asyncio.sleep(0)
                e1 = await extra[1]
                out = [await f for f in reversed(futs)][::-1]
                e0 = await extra[0]
                if (pid == 0 and e0 != out[0]) or (pid == m - 1 and e1 != out[1]) or (pid != 0 and e0 is not None) or (pid != m - 1 and e1 is not None):
                    out.append(('single-receiver outputs', e0, e1))
                return out
            out = []
            for r in rs:
                out.append(await mpc.output(r))
            return out
        w = sim.World(m, t, no_prss, seed=sseed, policy=policy).run(program, cpu_seconds=20)
        res = w.ok_results()
        what = f'{shard["name"]} SecFlt({l})'
        if res is None:
            rec.violation(f'{what} ops {ops}: run did not complete {w.status} {[r for r in w.results() if r[0] == "EXC"][:1]} {w.error_summaries()[:1]}', {'mechanism': 'no-completion', 'l': l}, {'case': case}, case=case)
            if w.status in ('STEP-LIMIT', 'CPU-LIMIT'):
                budget_hits[0] += 1
                if budget_hits[0] >= 5:
                    rec.note_side(f'{shard["name"]}: {budget_hits[0]} programs exhausted their step/CPU budget (all reported); the rest of this shard is not run')
                    return
            continue
        for pid_, r_ in enumerate(res):
            if len(r_) > len(ops):
                rec.violation(f'{what} ops {ops}: party {pid_}: outputs to single receivers disagree with the outputs to all: {r_[-1]}', {'mechanism': 'single-receiver-output', 'l': l}, {'case': case}, case=case)
        res = [r_[:len(ops)] for r_ in res]
        if any(r != res[0] for r in res):
            rec.violation(f'{what} ops {ops}: parties obtained different values {res[:2]}', {'mechanism': 'parties-disagree', 'l': l}, {'case': case}, case=case)
        for op, x, y, got in zip(ops, xs, ys, res[0]):
            judge(op, x, y, got, u, rec, what, case, {'l': l})
        rec.case(case, nontrivial=True, sample={'config': shard['name'], 'l': l, 'ops': ops, 'x': xs, 'y': ys, 'results': res[0]} if ci == 0 else None)
