"""C20 — finite field elements obey the field laws through every operator."""
import itertools
import random

PROPERTY = 'C20'
ENGINE = 'UNIT'
LEVEL = 'exploration'
TECHNIQUE = 'runtime oracle + class-invariant monitor (value reduced, right type) on every operator result of GF(...) types; laws checked as equalities between real results and against an independent field implementation'
RULE = ('case = (field, operator, operands); small orders: all pairs (all triples for order <= 9); large orders: random elements with boundary values; '
        'non-trivial = at least one operand not in {0,1}; distinct by (field, op, operands)')
EXHAUSTIVE = 'all element pairs for orders 2,3,4,5,7,8,9,16,25,27,32 (all triples for the ring laws when order <= 9)'
ASSUMPTIONS = ['oracle GF(p^d) arithmetic in vlib/oracles/ref.py', 'an int mixed into an operator denotes the element the field constructor makes of it']
REQUIRE = {'any': {'operator_results': 20000, 'invariant_checks': 20000, 'law_checks': 2000}}
LEVEL_TEXT = 'exploration: exhaustive pairs on 11 small fields, random on 7 large fields (prime, binary, odd extension)'
LEVEL_NOTE = 'trusted: vlib/oracles/ref.py'

SMALL = [('p', 2), ('p', 3), ('x', 2, 'x^2+x+1'), ('p', 5), ('p', 7), ('x', 2, 'x^3+x+1'), ('x', 3, 'x^2+1'), ('x', 2, 'x^4+x+1'),
         ('x', 5, 'x^2+2'), ('x', 3, 'x^3+2x+1'), ('x', 2, 'x^5+x^2+1'),
         ('x', 3, '2x^2+2'), ('x', 5, '2x^2+4')]          # irreducible moduli need not be monic
LARGE = [('p', 101), ('p', 2**61 - 1), ('p', 2**255 - 19), ('x', 2, 'x^8+x^4+x^3+x+1'), ('x', 3, 'x^5+2x+1'),
         ('x', 2, 'x^128+x^7+x^2+x+1'), ('x', 7, 'x^3+6x^2+4'), ('p', 2**127 - 1)]


def shards(tier, seed):
    out = [{'name': f'small-{i}', 'field': list(f), 'mode': 'exhaustive'} for i, f in enumerate(SMALL)]
    out += [{'name': f'large-{i}', 'field': list(f), 'mode': 'random', 'n': 150 if tier == 'quick' else 3000} for i, f in enumerate(LARGE)]
    return out


def run(shard, rec):
    from vlib import env
    env.prepare()
    from checks.c12 import make_field
    from vlib.oracles import ref
    from mpyc import gfpx
    field = make_field(shard['field'])
    other = make_field(['p', 11] if shard['field'] != ['p', 11] else ['p', 13])     # alternate fields (1-place caches)
    big_ext = field.ext_deg > 12
    F = RefFieldFast(field, ref) if big_ext else ref.field_of(field)
    q = field.order
    p = field.characteristic
    d = field.ext_deg
    fname = repr(shard['field'])
    rng = random.Random(f"c20/{shard['seed']}/{fname}")
    polytype = type(field.modulus) if d > 1 else None
    feats = {'char_odd': p != 2, 'ext': d > 1}

    def E(e):
        return ref.elt(F, e)

    def inv_ok(e, what):
        rec.count('invariant_checks')
        if type(e) is not field:
            return f'{what}: result type {type(e).__name__} is not the field'
        v = e.value
        if d == 1:
            if type(v) is not int or not 0 <= v < q:
                return f'{what}: value {v!r} not a reduced int'
        else:
            if type(v) is not polytype or v.degree() >= d:
                return f'{what}: value {v!r} not a reduced polynomial'
        return None

    def viol(what, op, case):
        rec.violation(f'{fname}: {what}', dict(feats, op=op), {'case': case}, case=case)

    def mk(n):
        return field(n)

    rec_alias_done = {}

    def check_pair(ai, bi):
        a, b = mk(ai), mk(bi)
        ea, eb = E(a), E(b)
        case = [fname, 'pair', ai, bi]
        if not rec.wants(case):
            return
        _ = other(3) >> 1                              # disturb 1-place caches between operations
        exp = {'add': F.add(ea, eb), 'sub': F.sub(ea, eb), 'mul': F.mul(ea, eb)}
        got = {'add': a + b, 'sub': a - b, 'mul': a * b}
        if not F.is_zero(eb):
            exp['div'] = F.div(ea, eb)
            got['div'] = a / b
        else:
            for name, fn in (('div', lambda: a / b), ('reciprocal', lambda: b.reciprocal())):
                try:
                    r = fn()
                    viol(f'{name} by zero returned {r!r}', name, case)
                except ZeroDivisionError:
                    pass
                except Exception as e:
                    viol(f'{name} by zero raised {type(e).__name__} instead of ZeroDivisionError', name, case)
        for op, r in got.items():
            rec.count('operator_results')
            bad = inv_ok(r, op)
            if bad:
                viol(bad, op, case)
            elif E(r) != exp[op]:
                viol(f'{ai} {op} {bi} = {E(r)} expected {exp[op]}', op, case)
        # in-place forms: same object, same value
        for op, fn in (('iadd', lambda x: x.__iadd__(b)), ('isub', lambda x: x.__isub__(b)), ('imul', lambda x: x.__imul__(b)),
                       ('idiv', lambda x: x.__itruediv__(b))):
            if op == 'idiv' and F.is_zero(eb):
                continue
            x = mk(ai)
            r = fn(x)
            rec.count('operator_results')
            bad = inv_ok(x, op) or (None if r is x else f'{op} did not return the same object')
            if bad:
                viol(bad, op, case)
            elif E(x) != exp[op[1:]]:
                viol(f'{ai} {op} {bi} = {E(x)} expected {exp[op[1:]]}', op, case)
        # in-place operators only change the object they are applied to: other objects derived from the same element stay what they were
        if not rec_alias_done.get((ai % 7, bi % 7)) and (ai + bi) % 3 == 0:
            rec_alias_done[(ai % 7, bi % 7)] = True
            import copy as _copy
            for how, derive in (('+a', lambda v: +v), ('a**1', lambda v: v ** 1), ('F(a.value)', lambda v: field(v.value)), ('copy.copy(a)', lambda v: _copy.copy(v)), ('a*1', lambda v: v * 1)):
                for op, fn in (('iadd', lambda x: x.__iadd__(b)), ('isub', lambda x: x.__isub__(b)), ('imul', lambda x: x.__imul__(b))):
                    src = mk(ai)
                    try:
                        alias = derive(src)
                    except Exception:
                        continue
                    fn(alias)
                    rec.count('alias_checks')
                    if E(src) != ea:
                        viol(f'{op} on an element obtained as {how} changed the original element {ai} into {E(src)}', 'alias-' + op, case)
                    elif E(alias) != exp[op[1:]]:
                        viol(f'{op} on an element obtained as {how}: {E(alias)} expected {exp[op[1:]]}', 'alias-' + op, case)
        # mixed int operands, both sides: equals converting first
        n = bi if rng.random() < 0.7 else rng.choice([-1, -bi, bi + q, q, q - 1, 2 * q + 1])
        if rng.random() < 0.15:
            n = -n                                         # negative ints too (also in extension fields): whatever converting first gives
        fb = mk(n)
        efb = E(fb)
        mixed = [('add_int', lambda: a + n, lambda: a + fb), ('radd_int', lambda: n + a, lambda: fb + a),
                 ('sub_int', lambda: a - n, lambda: a - fb), ('rsub_int', lambda: n - a, lambda: fb - a),
                 ('mul_int', lambda: a * n, lambda: a * fb), ('rmul_int', lambda: n * a, lambda: fb * a)]
        if not F.is_zero(efb):
            mixed.append(('div_int', lambda: a / n, lambda: a / fb))
        if not F.is_zero(ea):
            mixed.append(('rdiv_int', lambda: n / a, lambda: fb / a))
        for op, f1, f2 in mixed:
            r1, r2 = f1(), f2()
            rec.count('operator_results')
            bad = inv_ok(r1, op)
            if bad:
                viol(bad, op, case)
            elif r1.value != r2.value:
                viol(f'{op}: a={ai} n={n}: mixing in the int gives {E(r1)}, converting first gives {E(r2)}', op, case)
        if d > 1:
            pb = b.value                                  # polynomial operand
            for op, f1, f2 in (('add_poly', lambda: a + pb, lambda: a + b), ('rmul_poly', lambda: pb * a, lambda: b * a), ('rsub_poly', lambda: pb - a, lambda: b - a)):
                r1, r2 = f1(), f2()
                rec.count('operator_results')
                bad = inv_ok(r1, op)
                if bad:
                    viol(bad, op, case)
                elif r1.value != r2.value:
                    viol(f'{op}: polynomial operand differs from converting first', op, case)
        # equality, hash, bool
        if (a == b) != (ea == eb) or (a != b) != (ea != eb):
            viol(f'== / != wrong for {ai},{bi}', 'eq', case)
        if (a == bi) != (ea == E(mk(bi))):
            viol(f'== with int wrong for {ai},{bi}', 'eq_int', case)
        if a == b and hash(a) != hash(b):
            viol('equal elements hash differently', 'hash', case)
        if bool(a) != (not F.is_zero(ea)):
            viol(f'bool({ai}) wrong', 'bool', case)
        rec.case(case, nontrivial=ai > 1 or bi > 1, sample={'field': fname, 'a': str(ai), 'b': str(bi), 'a+b': str(int(got['add'].value)), 'a*b': str(int(got['mul'].value))} if rng.random() < 0.0015 else None)

    def check_unary(ai):
        a = mk(ai)
        ea = E(a)
        case = [fname, 'unary', ai]
        if not rec.wants(case):
            return
        r = -a
        if inv_ok(r, 'neg') or E(r) != F.neg(ea):
            viol(f'-{ai} wrong', 'neg', case)
        if E(+a) != ea:
            viol(f'+{ai} wrong', 'pos', case)
        if not F.is_zero(ea):
            r = a.reciprocal()
            if inv_ok(r, 'reciprocal') or E(r) != F.inv(ea) or E(r * a) != F.one():
                viol(f'reciprocal({ai}) wrong', 'reciprocal', case)
        # powers: small exponents vs repeated product, huge exponents via order reduction
        for n in list(range(-6, 7)) + [q - 1, q, -(q - 1), rng.randrange(1, q ** 2 + 2)]:
            if F.is_zero(ea) and n < 0:
                try:
                    r = a ** n
                    viol(f'0 ** {n} returned {r!r}', 'pow', case)
                except (ZeroDivisionError, ValueError):
                    pass
                continue
            r = a ** n
            rec.count('operator_results')
            if abs(n) <= 6:
                e = F.one()
                base = ea if n >= 0 else F.inv(ea)
                for _ in range(abs(n)):
                    e = F.mul(e, base)
            else:
                e = F.pow(ea, n)
            bad = inv_ok(r, 'pow')
            if bad:
                viol(bad, 'pow', case)
            elif E(r) != e:
                viol(f'{ai} ** {n} = {E(r)} expected {e}', 'pow', case)
        # shifts: multiplication / division by 2**k (the int 2**k mixed in, i.e. converted first)
        for k in (0, 1, 2, 3, 5, 9):
            two_k = mk(1 << k)
            if F.is_zero(E(two_k)):
                # 2**k is zero in this field (GF(2), k >= 1): a >> k is a division by zero like a / 2**k, a << k is a * 0
                for op, fn in (('rshift', lambda: a >> k), ('irshift', lambda: mk(ai).__irshift__(k))):
                    rec.count('operator_results')
                    try:
                        r = fn()
                        viol(f'{ai} {op} {k} returned {r!r} although 2**{k} = 0 in this field (a / 2**{k} raises ZeroDivisionError)', op, case)
                    except ZeroDivisionError:
                        pass
                    except Exception as e:
                        viol(f'{ai} {op} {k} raised {type(e).__name__} instead of ZeroDivisionError', op, case)
                r = a << k
                rec.count('operator_results')
                if inv_ok(r, 'lshift') or not F.is_zero(E(r)):
                    viol(f'{ai} << {k} = {r!r}, expected 0 (2**{k} = 0 in this field)', 'lshift', case)
                continue
            if other.characteristic != 2 or k == 0:
                _ = other(3) >> k                       # the same shift amount in another field just before (caches keyed on the amount only would be stale)
            for op, r, e in (('lshift', a << k, a * (1 << k)), ('rshift', a >> k, a / (1 << k))):
                rec.count('operator_results')
                bad = inv_ok(r, op)
                if bad:
                    viol(bad, op, case)
                elif r.value != e.value:
                    viol(f'{ai} {op} {k} = {E(r)} but {"*" if op == "lshift" else "/"} 2**{k} = {E(e)}', op, case)
            x = mk(ai)
            x <<= k
            y = mk(ai)
            y >>= k
            if inv_ok(x, 'ilshift') or x.value != (a << k).value:
                viol(f'{ai} <<= {k} disagrees with <<', 'ilshift', case)
            if inv_ok(y, 'irshift') or y.value != (a >> k).value:
                viol(f'{ai} >>= {k} disagrees with >>', 'irshift', case)
            rt = (a << k) >> k
            if rt.value != a.value:
                viol(f'({ai} << {k}) >> {k} = {E(rt)} != {ea}', 'shift_roundtrip', case)
        rec.case(case, nontrivial=ai > 1)

    def check_laws(ai, bi, ci):
        a, b, c = mk(ai), mk(bi), mk(ci)
        case = [fname, 'laws', ai, bi, ci]
        if not rec.wants(case):
            return
        rec.count('law_checks')
        laws = [('assoc_add', (a + b) + c, a + (b + c)), ('assoc_mul', (a * b) * c, a * (b * c)), ('comm_add', a + b, b + a),
                ('comm_mul', a * b, b * a), ('distrib', a * (b + c), a * b + a * c), ('add_id', a + mk(0), a), ('mul_id', a * mk(1), a),
                ('add_inv', a + (-a), mk(0)), ('sub_def', a - b, a + (-b))]
        if ci:
            laws.append(('div_def', (a / c) * c, a))
            laws.append(('mul_inv', c * c.reciprocal(), mk(1)))
        for name, l, r in laws:
            if l.value != r.value or l != r:
                viol(f'law {name} fails for ({ai},{bi},{ci}): {E(l)} vs {E(r)}', 'law_' + name, case)
        rec.case(case, nontrivial=max(ai, bi, ci) > 1)

    if shard['mode'] == 'exhaustive':
        for ai in range(q):
            check_unary(ai)
            for bi in range(q):
                check_pair(ai, bi)
        trip = itertools.product(range(q), repeat=3) if q <= 9 else ((rng.randrange(q), rng.randrange(q), rng.randrange(q)) for _ in range(1500))
        for t3 in trip:
            check_laws(*t3)
    else:
        special = [0, 1, 2, q - 1, q - 2, p, p - 1, q // 2, q // 2 + 1]
        special = [s % q for s in special]
        pick = lambda: rng.choice(special) if rng.random() < 0.25 else rng.randrange(q)
        for _ in range(shard['n']):
            check_pair(pick(), pick())
        for _ in range(max(10, shard['n'] // 6)):
            check_unary(pick())
        for _ in range(shard['n']):
            check_laws(pick(), pick(), pick())


class RefFieldFast:
    """Oracle for big binary/extension fields where the brute-force irreducibility self-check of RefField is infeasible:
    same schoolbook arithmetic, modulus taken on trust from the field (its irreducibility is C24's concern)."""

    def __new__(cls, field, ref):
        p = int(field.characteristic)
        mod = [int(c) for c in list(field.modulus)]
        F = ref.RefField.__new__(ref.RefField)
        F.p = p
        F.mod = ref.ptrim(mod)
        F.d = len(F.mod) - 1
        F.order = p ** F.d
        return F
