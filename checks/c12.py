"""C12 — Shamir split and recombine are inverse for all fields and thresholds."""
import itertools
import random

PROPERTY = 'C12'
ENGINE = 'UNIT'
LEVEL = 'exploration'
TECHNIQUE = 'runtime oracle monitor: real random_split/recombine (and numpy twins) driven over fields x (t,m) x subsets x evaluation points, judged by independent Lagrange interpolation'
RULE = ('case = (field, t, m, secrets, seed, representation raw/element); every (t+1)-subset for m<=8 plus random larger subsets, x_r in 0..m+2; '
        'non-trivial = t >= 1 (degree >= 1 polynomial); distinct by (field,t,m,secret vector,tape seed)')
ASSUMPTIONS = ['oracle: schoolbook GF(p^d) arithmetic and Lagrange interpolation in vlib/oracles/ref.py']
REQUIRE = {'any': {'subset_recombinations': 2000, 'xr_recombinations': 500, 'degree_checks': 300}}
LEVEL_TEXT = 'exploration: all (t,m) with m<=8 (m<|F|), all (t+1)-subsets, fields prime/binary/extension incl. a 61-bit prime; secrets sampled with boundary values'
LEVEL_NOTE = 'trusted: vlib/oracles/ref.py; numpy only in the array shard'

FIELDS = [('p', 2), ('p', 3), ('p', 5), ('p', 7), ('p', 11), ('p', 101), ('p', 2**61 - 1), ('p', 2**31 - 1), ('p', 19),
          ('x', 2, 'x^2+x+1'), ('x', 2, 'x^3+x+1'), ('x', 2, 'x^8+x^4+x^3+x+1'), ('x', 3, 'x^2+1'), ('x', 5, 'x^2+2'), ('x', 3, 'x^3+2x+1')]


def shards(tier, seed):
    out = []
    for i, f in enumerate(FIELDS):
        out.append({'name': f'list-{i}', 'field': list(f), 'np': False, 'reps': 6 if tier == 'quick' else 100})
    for i, f in enumerate(FIELDS):
        if tier == 'quick' and i % 2:
            continue
        out.append({'name': f'np-{i}', 'field': list(f), 'np': True, 'reps': 2 if tier == 'quick' else 60})
    return out


def make_field(desc):
    from mpyc import finfields, gfpx
    if desc[0] == 'p':
        return finfields.GF(desc[1])
    return finfields.GF(gfpx.GFpX(desc[1])(desc[2]))


def run(shard, rec):
    from vlib import env
    env.prepare(numpy=shard['np'])
    from mpyc import thresha
    from vlib.oracles import ref
    from vlib.sim import Shim
    shim = Shim()
    assert hasattr(thresha, 'secrets')
    thresha.secrets = shim
    field = make_field(shard['field'])
    F = ref.field_of(field)
    q = F.order
    rng = random.Random(f"c12/{shard['seed']}/{shard['name']}")
    use_np = shard['np']
    if use_np:
        import numpy as np
    fname = repr(shard['field'])

    def red(v):
        return ref.elt(F, field(v) if not isinstance(v, field) else v)

    # a sibling field: same order, other irreducible modulus (anything remembered per order instead of per field would be stale)
    sib = None
    if field.ext_deg > 1 and q <= 10 ** 6:
        from mpyc import finfields, gfpx
        P_ = gfpx.GFpX(field.characteristic)
        pol = P_(field.characteristic ** field.ext_deg)
        for _ in range(6):
            pol = P_.next_irreducible(pol)
            if pol.degree() != field.ext_deg:
                break
            if pol != field.modulus:
                sib = finfields.GF(pol)
                break
    big_m = [13, 17] if field.ext_deg == 1 and q > 17 else []       # many parties / high thresholds (fixed-width integer arithmetic would overflow here first)
    for m in list(range(1, 9)) + big_m:
        if m >= q:
            continue
        for t in (range(0, m) if m <= 8 else (1, m // 2 + 2, m - 4, m - 1)):
            for rep in range(shard['reps'] if m <= 8 else max(1, shard['reps'] // 3)):
                n = rng.choice([1, 2, 3])
                svals = [rng.choice([0, 1, q - 1, rng.randrange(q)]) for _ in range(n)]
                as_elements = bool(rep % 2)
                secrets_in = [field(v) for v in svals] if as_elements else [field(v).value for v in svals]
                tape = rng.randrange(1 << 30)
                case = [fname, t, m, svals, tape, as_elements]
                if not rec.wants(case):
                    continue
                shim.reseed(tape)
                shares = thresha.random_split(field, secrets_in, t, m)
                ok = True
                if len(shares) != m or any(len(r) != n for r in shares):
                    rec.violation(f'random_split shape wrong {fname} t={t} m={m}', {'mechanism': 'shape'}, {'case': case}, case=case)
                    continue
                sref = [F.from_int(v) for v in svals]
                osh = [[red(shares[i][h]) for i in range(m)] for h in range(n)]
                # degree and constant term from all m shares
                for h in range(n):
                    deg, c0 = ref.sharing_degree_and_secret(F, osh[h])
                    rec.count('degree_checks')
                    if deg > t or c0 != sref[h]:
                        ok = False
                        rec.violation(f'{fname} t={t} m={m}: m shares interpolate to degree {deg}, constant {c0} (secret {sref[h]})',
                                      {'mechanism': 'split-degree-or-secret'}, {'case': case}, case=case)
                coeffs = [ref.interpolate(F, [(i + 1, osh[h][i]) for i in range(m)]) for h in range(n)]
                # every (t+1)-subset, some larger subsets
                subsets = list(itertools.combinations(range(m), t + 1))
                for k in range(t + 2, m + 1):
                    allk = list(itertools.combinations(range(m), k))
                    subsets += rng.sample(allk, min(2, len(allk)))
                for S in subsets:
                    order = list(S)
                    rng.shuffle(order)
                    points = [(i + 1, shares[i]) for i in order]
                    if sib is not None:
                        thresha.recombine(sib, [(x_, [sib(1).value] * n) for x_, _ in points])      # same x-coordinates in the sibling field first
                        rec.count('sibling_recombinations')
                    y = thresha.recombine(field, points)
                    rec.count('subset_recombinations')
                    got = [red(v) for v in y]
                    if got == sref and field.ext_deg > 1:
                        # the runtime passes shares as received: field.from_bytes() yields *int* encodings also for extension fields
                        yi = thresha.recombine(field, [(x_, [int(field(v)) for v in row]) for x_, row in points])
                        rec.count('int_encoded_recombinations')
                        got = [red(v) for v in yi]
                    if got != sref:
                        ok = False
                        rec.violation(f'{fname} t={t} m={m} subset {S}: recombine gives {got} expected {sref}', {'mechanism': 'recombine-secret'},
                                      {'case': case, 'subset': S}, case=case)
                        break
                    if use_np:
                        ya = thresha.np_recombine(field, [(x, np.array([field(v).value if not isinstance(v, field) else v.value for v in row], dtype=object)) for x, row in points])
                        gota = [red(v) for v in ya.value]
                        rec.count('np_recombinations')
                        if gota != sref:
                            ok = False
                            rec.violation(f'{fname} t={t} m={m} subset {S}: np_recombine gives {gota} expected {sref}', {'mechanism': 'np-recombine'},
                                          {'case': case, 'subset': S}, case=case)
                            break
                # recombination at other points, single and list forms
                S = rng.choice(list(itertools.combinations(range(m), t + 1)))
                points = [(i + 1, shares[i]) for i in S]
                xrs = [x for x in range(0, m + 3) if x < q]   # evaluation points are field points 0..q-1
                exp = {x: [ref.poly_eval(F, coeffs[h], x) for h in range(n)] for x in xrs}
                for x in xrs:
                    y = thresha.recombine(field, points, x)
                    rec.count('xr_recombinations')
                    if [red(v) for v in y] != exp[x]:
                        ok = False
                        rec.violation(f'{fname} t={t} m={m}: recombine at x={x} from subset {S} disagrees with the interpolated polynomial',
                                      {'mechanism': 'recombine-at-x'}, {'case': case, 'x': x}, case=case)
                        break
                ylist = thresha.recombine(field, points, xrs)
                if [[red(v) for v in row] for row in ylist] != [exp[x] for x in xrs]:
                    ok = False
                    rec.violation(f'{fname} t={t} m={m}: recombine with list of x_r disagrees', {'mechanism': 'recombine-xr-list'}, {'case': case}, case=case)
                if use_np:
                    shim.reseed(tape)
                    arr = field.array(np.array([field(v).value for v in svals], dtype=object), check=False)
                    sha = thresha.np_random_split(field, arr if as_elements else arr.value, t, m)
                    rec.count('np_splits')
                    got = [[red(sha[i][h]) for i in range(m)] for h in range(n)]
                    if got != osh:
                        # same tape is consumed in a different order by the array version (t*n draws, row-major by coefficient):
                        # equality under the same tape is only required in distribution; judge the array sharing on its own merits
                        for h in range(n):
                            deg, c0 = ref.sharing_degree_and_secret(F, got[h])
                            if deg > t or c0 != sref[h]:
                                ok = False
                                rec.violation(f'{fname} t={t} m={m}: np_random_split degree {deg} constant {c0} secret {sref[h]}', {'mechanism': 'np-split'},
                                              {'case': case}, case=case)
                        rec.count('np_split_differs_under_same_tape')
                    else:
                        rec.count('np_split_equal_under_same_tape')
                    pts = [(i + 1, sha[i]) for i in rng.sample(range(m), t + 1)]
                    yy = thresha.np_recombine(field, pts)
                    if [red(v) for v in yy.value] != sref:
                        ok = False
                        rec.violation(f'{fname} t={t} m={m}: np split -> np recombine not inverse', {'mechanism': 'np-roundtrip'}, {'case': case}, case=case)
                # a dealing belongs to its caller: a later dealing (same m, same number of secrets) leaves the earlier shares as they were
                other_secrets = [field((v * 7 + 3) % q) for v in svals]
                shares_b = thresha.random_split(field, other_secrets if as_elements else [a.value for a in other_secrets], t, m)
                rec.count('held_dealings_checked')
                if [[red(shares[i][h]) for i in range(m)] for h in range(n)] != osh:
                    rec.violation(f'{fname} t={t} m={m}: the shares returned by random_split changed when random_split was called again (same m, same number of secrets)',
                                  {'mechanism': 'split-result-overwritten'}, {'case': case}, case=case)
                elif t >= 1 and q > 1000 and any(shares_b[i] is shares[i] for i in range(m)):
                    rec.violation(f'{fname} t={t} m={m}: two dealings share their row lists', {'mechanism': 'split-result-overwritten'}, {'case': case}, case=case)
                rec.case(case, nontrivial=t >= 1, sample={'field': fname, 't': t, 'm': m, 'secrets': svals, 'subsets_checked': len(subsets)} if rep == 0 and t == 1 and m in (3, 5) else None)
