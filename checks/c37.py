"""C37 — secure NumPy arrays agree with plain NumPy (and array sharing/PRSS with the list versions)."""
import random
import math
import asyncio

PROPERTY = 'C37'
ENGINE = 'SIM'
LEVEL = 'exploration'
TECHNIQUE = ('runtime oracle monitor (NumPy tier): one expression is evaluated twice, on secure arrays (real secint/secfxp/secfld array types, operands shared by mpc.input under the m-party simulator) '
             'and on plain NumPy arrays; every opened result is compared in shape and value (exactly; within fixed-point precision for secfxp); '
             'np_random_split/np_recombine/np_pseudorandom_share(_0) are cross-checked against the list versions on the same keys')
RULE = ('case = (dtype, configuration, operation family, operand shapes and values); non-trivial = an operand with >= 2 elements; distinct by that tuple; '
        'an expression for which plain NumPy raises is outside the domain and skipped; a secure evaluation that raises or hangs where NumPy returns a value is a violation attributed to the single operation')
EXHAUSTIVE = ''
ASSUMPTIONS = ['plain NumPy (2.x from the offline wheelhouse, installed by bin/setup) is the specification; field arrays are compared modulo p',
               'fixed-point tolerance: (2 + number of accumulated products) * 2^-f for products, exact for additions/shape operations, 2^-(f-5) * max(1, |q|) for quotients']
REQUIRE = {'any': {'worlds': 300, 'values_compared': 3000, 'seen:ops': 150, 'multi_party_worlds': 150, 'sharing_crosschecks': 200}}
LEVEL_TEXT = 'exploration: 3 array types x 5 configurations x 9 operation families (~170 expressions) x random shapes (<= 3 dims, <= 12 elements, incl. 0-d and 0-length axes) and broadcast partners'
LEVEL_NOTE = 'trusted: NumPy'
TIMEOUT = {'quick': 1800, 'thorough': 14000}

from vlib.runner import config_name

QUICK_CFGS = [(1, 0, False), (2, 0, False), (3, 1, False), (3, 1, True), (5, 2, False)]
THOROUGH_CFGS = QUICK_CFGS + [(3, 0, False), (4, 1, True), (5, 1, False), (5, 2, True), (7, 3, False)]
DTYPES = ['secint', 'secfxp', 'secfld', 'secint16']          # secint16: a 48-bit field ('medium' relative to the security parameter)
FAMILIES = ['arith', 'cmp', 'reduce', 'shape', 'stack', 'index', 'linalg', 'left', 'io']
P_FLD = 101
F_FXP = 16


def shards(tier, seed):
    cfgs = QUICK_CFGS if tier == 'quick' else THOROUGH_CFGS
    out = [{'name': f'{d}-{config_name(c)}', 'kind': 'ops', 'dtype': d, 'cfg': list(c), 'cases': (14 if c[0] == 1 else 7) * (1 if tier == 'quick' else 4)} for d in DTYPES for c in cfgs]
    out.append({'name': 'sharing', 'kind': 'sharing', 'cases': 60 if tier == 'quick' else 400})
    for c in [(3, 1, False), (3, 1, True), (5, 2, False)] + ([(2, 0, False), (5, 2, True), (4, 1, False)] if tier != 'quick' else []):
        out.append({'name': f'mixed-{config_name(c)}', 'kind': 'mixed', 'cfg': list(c), 'cases': 20 if tier == 'quick' else 120})
    return out


def rand_shape(rng):
    r = rng.random()
    if r < .06:
        return ()
    nd = rng.choice([1, 1, 2, 2, 2, 3])
    while True:
        s = tuple(rng.choice([1, 2, 2, 3, 3, 4, 5, 6]) for _ in range(nd))
        if math.prod(s) <= 12:
            break
    if r > .93:
        s = list(s)
        s[rng.randrange(nd)] = 0
        s = tuple(s)
    return s


def partner_shape(rng, s):
    """a shape broadcast-compatible with s"""
    r = rng.random()
    if r < .45 or not s:
        return s if r < .8 else ()
    if r < .6:
        return ()
    k = rng.randrange(0, len(s) + 1)
    t = list(s[k:])
    for i in range(len(t)):
        if rng.random() < .3:
            t[i] = 1
    return tuple(t)


def run(shard, rec):
    from vlib import env
    env.prepare(numpy=True)
    from vlib import sim
    ns = sim.install()
    import numpy as np
    import warnings
    warnings.simplefilter('ignore')
    rng = random.Random(f"c37/{shard['seed']}/{shard['name']}")
    if shard['kind'] == 'sharing':
        return run_sharing(shard, rec, rng, np, ns, sim)
    if shard['kind'] == 'mixed':
        return run_mixed(shard, rec, rng, np, ns, sim)
    dt = shard['dtype']
    bits16 = dt == 'secint16'
    if bits16:
        dt = 'secint'
    m, t, no_prss = shard['cfg']
    MAXSTEPS = [0]

    def values(shape):
        n = math.prod(shape)
        if dt == 'secint':
            v = [rng.randrange(-20, 21) for _ in range(n)]
            return np.array(v, dtype=object).reshape(shape) if False else np.array(v, dtype=np.int64).reshape(shape)
        if dt == 'secfxp':
            v = [rng.randrange(-64, 65) / 8 for _ in range(n)]
            return np.array(v, dtype=float).reshape(shape)
        v = [rng.randrange(0, P_FLD) for _ in range(n)]
        return np.array(v, dtype=np.int64).reshape(shape)

    def norm_plain(v):
        """plain result -> comparable structure"""
        if isinstance(v, (list, tuple)):
            if v and all(not isinstance(a, (list, tuple)) and np.ndim(a) == 0 for a in v):
                return np.array([a.item() if isinstance(a, (np.ndarray, np.generic)) else a for a in v], dtype=object)
            return [norm_plain(a) for a in v]
        a = np.asarray(v)
        if dt == 'secfld':
            a = np.asarray(np.asarray(a, dtype=object) % P_FLD, dtype=object) if a.dtype != bool else a.astype(int)
        return a

    def arraylike(a):
        if isinstance(a, (list, tuple)):
            return True
        v = getattr(a, 'value', a)
        return isinstance(v, np.ndarray) and v.ndim > 0

    def norm_got(v):
        if isinstance(v, (list, tuple)):
            if v and all(not arraylike(a) for a in v):
                return np.array([conv(a.value.item() if isinstance(getattr(a, 'value', None), np.ndarray) else a.item() if isinstance(a, np.ndarray) else a) for a in v], dtype=object)
            return [norm_got(a) for a in v]
        if isinstance(getattr(v, 'value', None), np.ndarray):           # finite field array (possibly 0-d)
            v = v.value
        if isinstance(v, np.ndarray):
            return np.array([conv(x) for x in v.flat], dtype=object).reshape(v.shape) if v.dtype == object else v
        return np.asarray(conv(v))

    def conv(x):
        val = getattr(x, 'value', None)
        if val is not None and not isinstance(val, np.ndarray):
            return int(val)
        return x

    def close(got, exp, tol):
        """None if equal; description otherwise"""
        if isinstance(exp, list):
            if not isinstance(got, list) or len(got) != len(exp):
                return f'structure {type(got).__name__}/{len(got) if isinstance(got, list) else ""} vs list of {len(exp)}'
            for g, e in zip(got, exp):
                r = close(g, e, tol)
                if r:
                    return r
            return None
        if isinstance(got, list):
            got = np.asarray(got, dtype=object)
        if tuple(got.shape) != tuple(exp.shape):
            return f'shape {tuple(got.shape)} vs numpy {tuple(exp.shape)}'
        if got.size == 0:
            return None
        g = np.asarray(got, dtype=object).reshape(-1)
        e = np.asarray(exp).reshape(-1)
        for i in range(len(e)):
            gi, ei = g[i], e[i]
            if dt == 'secfld':
                ok = (int(gi) - int(ei)) % P_FLD == 0
            elif dt == 'secint':
                ok = int(gi) == int(ei) if float(ei) == int(ei) else abs(float(gi) - float(ei)) <= tol
            else:
                ok = abs(float(gi) - float(ei)) <= tol * (max(1.0, abs(float(ei))) if tol > 2 ** -(F_FXP - 4) else 1.0) + 1e-12
            if not ok:
                return f'element {i}: {gi} vs numpy {ei}'
        return None

    ULP = 2.0 ** -F_FXP

    for ci in range(shard['cases']):
        s1 = rand_shape(rng)
        s2 = partner_shape(rng, s1)
        X, Y = values(s1), values(s2)
        if dt == 'secfxp' and rng.random() < .3:
            X = np.round(X)                                   # integral operands take the integral fast paths
        for fam in FAMILIES:
            case = [shard['name'], ci, fam, list(s1), list(s2), X.tolist() if X.size <= 12 else None, Y.tolist() if Y.size <= 12 else None]
            if not rec.wants(case):
                continue
            feats = {'dtype': shard['dtype'], 'family': fam, 'zero_dim': s1 == () or s2 == (), 'zero_len_axis': 0 in s1 or 0 in s2, 'degenerate_shape': s1 == () or s2 == () or 0 in s1 or 0 in s2, 't_gt_0': t > 0, 'm_gt_1': m > 1}
            info = {}
            ops = build_ops(fam, dt, s1, s2, X, Y, rng, np, m, info)
            feats['axis_before_last_two'] = len(s1) >= 3 and info.get('axis') is not None and info['axis'] < len(s1) - 2
            # plain evaluation decides the domain
            todo = []
            for name, fn, tolk in ops:
                try:
                    with np.errstate(all='ignore'):
                        exp = fn(np, None, X.copy(), Y.copy())
                    expn = norm_plain(exp)
                except Exception as ex:
                    rec.count('skipped_numpy_raises')
                    continue
                flat = [expn] if not isinstance(expn, list) else expn
                if any(isinstance(a, np.ndarray) and a.dtype.kind == 'f' and not np.all(np.isfinite(a)) for a in flat):
                    rec.count('skipped_nonfinite')
                    continue
                todo.append((name, fn, tolk, expn))
            if not todo:
                continue

            async def program(mpc, pid, todo=todo):
                T = {'secint': mpc.SecInt(16 if bits16 else 32), 'secfxp': mpc.SecFxp(32, F_FXP), 'secfld': mpc.SecFld(P_FLD)}[dt]
                mk = (lambda a: T.array(a, integral=False)) if dt == 'secfxp' else (lambda a: T.array(a))
                x = mpc.input(mk(X if pid == 0 else np.zeros_like(X)), senders=0)
                y = mpc.input(mk(Y if pid == 0 else np.zeros_like(Y)), senders=0)
                res = []
                for name, fn, _, _ in todo:
                    r = fn(np, mpc, x, y)
                    res.append(await out(mpc, r))
                return res

            async def out(mpc, r):
                if asyncio.isfuture(r) or asyncio.iscoroutine(r):
                    return await r                      # already opened / plain
                if isinstance(r, (list, tuple)):
                    return [await out(mpc, a) for a in r]
                if isinstance(r, (int, float, np.ndarray, np.generic)) or r is None:
                    return r
                return await mpc.output(r)

            def launch(todo_, seed, policy, budget):
                w = sim.World(m, t, no_prss, seed=seed, policy=policy).run(lambda mpc, pid: program(mpc, pid, todo_), max_steps=budget)
                MAXSTEPS[0] = max(MAXSTEPS[0], w.steps if w.status == 'DONE' else 0)
                return w
            res = None
            for attempt in range(3):
                wseed = rng.randrange(1 << 30)
                w = launch(todo, wseed, rng.choice(sim.POLICIES), 1_500_000)
                if w.status == 'STEP-LIMIT':
                    rec.count('step_limit_retries')
                rec.count('worlds')
                if m > 1:
                    rec.count('multi_party_worlds')
                res = w.ok_results()
                if res is not None:
                    break
                errs = w.error_summaries()[:1]
                exc = (errs[0].split(':')[0].strip().split()[-1] if errs else str(w.status))
                culprits = []
                for op1 in todo:                          # attribute to the operations that fail when run alone
                    w1 = launch([op1], 1, 'uniform', 500_000)
                    if w1.ok_results() is None:
                        e1 = w1.error_summaries()[:1]
                        if not e1:
                            e1 = [r[1][:200] for r in w1.results() if r[0] == 'EXC'][:1]
                        culprits.append((op1, (e1[0].split(':')[0].split('(')[0].strip().split()[-1] if e1 else str(w1.status)), e1))
                if not culprits and w.status == 'STEP-LIMIT':
                    w = launch(todo, wseed, 'uniform', 5_000_000)
                    res = w.ok_results()
                    if res is not None:
                        break
                for culprit in culprits or [None]:
                    rec.violation(f'{shard["name"]} {fam}: shapes {s1},{s2}: secure evaluation did not complete ({w.status}) where NumPy returns a value; failing operation alone: {culprit and (culprit[0][0], culprit[1], culprit[2])}',
                                  dict(feats, mechanism='no-completion', symptom='raises' if (culprit and culprit[1] not in ('STEP-LIMIT', 'DEADLOCK', 'STUCK')) else 'hangs', exc=exc, op=culprit[0][0] if culprit else None, op_exc=culprit[1] if culprit else None),
                                  {'case': case}, case=case + ([culprit[0][0]] if culprit else []))
                if not culprits:
                    break
                todo = [o for o in todo if not any(o is c[0] for c in culprits)]
                if not todo:
                    break
            if res is not None and todo:
                for pid, r in enumerate(res):
                    bad = False
                    for (name, _, tolk, expn), got in zip(todo, r):
                        rec.count('values_compared')
                        rec.seen('ops', name)
                        try:
                            d = close(norm_got(got), expn, tolk * ULP)
                        except Exception as ex:
                            d = f'incomparable result {type(got).__name__}: {type(ex).__name__}: {ex}'
                        if d:
                            bad = True
                            rec.violation(f'{shard["name"]} {fam}.{name}: shapes {s1},{s2}: party {pid}: {d}; x={X.tolist()} y={Y.tolist()}', dict(feats, mechanism='wrong-result', symptom='shape-mismatch' if d.startswith('shape') else 'wrong-value', op=name), {'case': case}, case=case + [name])
                    if bad:
                        break
            rec.case(case, nontrivial=X.size >= 2, sample={'dtype': dt, 'config': shard['cfg'], 'family': fam, 'shapes': [list(s1), list(s2)], 'ops': [o[0] for o in todo][:8]} if ci == 0 and fam == 'reduce' else None)
    rec.note_side(f'max scheduler steps of a completed world in {shard["name"]}: {MAXSTEPS[0]}')


def build_ops(fam, dt, s1, s2, X, Y, rng, np, m=1, info=None):
    """list of (name, fn(np, mpc, x, y), tolerance in units of 2^-f).  fn runs unchanged on secure and on plain arrays; mpc is None for the plain evaluation."""
    ops = []
    nd = len(s1)
    n1 = math.prod(s1)

    def add(name, fn, tol=0):
        ops.append((name, fn, tol))
    ax = rng.randrange(nd) if nd else None
    if info is not None:
        info['axis'] = ax
    fx = dt == 'secfxp'
    if fam == 'arith':
        add('add', lambda np, mpc, x, y: x + y)
        add('sub', lambda np, mpc, x, y: x - y)
        add('mul', lambda np, mpc, x, y: x * y, 2)
        add('neg', lambda np, mpc, x, y: -x)
        add('np.add', lambda np, mpc, x, y: np.add(x, y))
        add('np.subtract', lambda np, mpc, x, y: np.subtract(x, y))
        add('np.multiply', lambda np, mpc, x, y: np.multiply(x, y), 2)
        add('np.negative', lambda np, mpc, x, y: np.negative(x))
        add('add_scalar', lambda np, mpc, x, y: x + 3)
        add('radd_scalar', lambda np, mpc, x, y: 3 + x)
        add('rsub_scalar', lambda np, mpc, x, y: 3 - x)
        add('mul_scalar', lambda np, mpc, x, y: x * 2, 2)
        add('rmul_scalar', lambda np, mpc, x, y: 2 * x, 2)
        add('add_plain', lambda np, mpc, x, y: x + Y)
        add('sub_plain', lambda np, mpc, x, y: x - Y)
        add('mul_plain', lambda np, mpc, x, y: x * Y, 2)
        add('square', lambda np, mpc, x, y: x ** 2, 3)
        add('cube', lambda np, mpc, x, y: x ** 3, 40)
        add('iadd', lambda np, mpc, x, y: iop(x, y, '+', np))
        add('isub', lambda np, mpc, x, y: iop(x, y, '-', np))
        add('imul', lambda np, mpc, x, y: iop(x, y, '*', np), 2)
        if dt != 'secfld':
            add('abs', lambda np, mpc, x, y: np.absolute(x))
            add('abs2', lambda np, mpc, x, y: abs(x))
        if fx:
            add('div', lambda np, mpc, x, y: x / np_nonzero(y, np), 2 ** 11)
            add('div_scalar', lambda np, mpc, x, y: x / 4, 2)
            add('rdiv_scalar', lambda np, mpc, x, y: 1 / np_nonzero(x, np), 2 ** 11)
            add('np.divide', lambda np, mpc, x, y: np.divide(x, np_nonzero(y, np)), 2 ** 11)
        if dt == 'secfld':
            add('div_fld', lambda np, mpc, x, y: fld_div(x, y, np, mpc is None))
            add('rdiv_fld', lambda np, mpc, x, y: fld_div(1, y, np, mpc is None))
        if dt == 'secint':
            add('lshift', lambda np, mpc, x, y: x << 2)
            add('sum_of_products', lambda np, mpc, x, y: x * y + x * 3 - y)
    elif fam == 'cmp':
        add('eq', lambda np, mpc, x, y: x == y)
        add('ne', lambda np, mpc, x, y: x != y)
        add('eq_plain', lambda np, mpc, x, y: x == Y)
        add('np.equal', lambda np, mpc, x, y: np.equal(x, y))
        if dt != 'secfld':
            add('lt', lambda np, mpc, x, y: x < y)
            add('le', lambda np, mpc, x, y: x <= y)
            add('gt', lambda np, mpc, x, y: x > y)
            add('ge', lambda np, mpc, x, y: x >= y)
            add('lt_scalar', lambda np, mpc, x, y: x < 1)
            add('ge_plain', lambda np, mpc, x, y: x >= Y)
            add('np.less', lambda np, mpc, x, y: np.less(x, y))
            add('np.minimum', lambda np, mpc, x, y: np.minimum(x, y))
            add('np.maximum', lambda np, mpc, x, y: np.maximum(x, y))
            add('np.where', lambda np, mpc, x, y: np.where(x < y, x, y))
            add('np.where_scalar', lambda np, mpc, x, y: np.where(x < y, x, 7) if mpc is None else np.where(x < y, x, 7))
            add('sgn', lambda np, mpc, x, y: np.sign(x) if mpc is None else mpc.np_sgn(x))
            add('amin', lambda np, mpc, x, y: np.amin(x))
            add('amax', lambda np, mpc, x, y: np.amax(x))
            if nd:
                add('amin_axis', lambda np, mpc, x, y: np.amin(x, axis=ax))
                add('amax_axis_keepdims', lambda np, mpc, x, y: np.amax(x, axis=ax, keepdims=True))
                add('argmin', lambda np, mpc, x, y: np.argmin(x))
                add('argmax', lambda np, mpc, x, y: np.argmax(x))
                add('argmin_axis', lambda np, mpc, x, y: np.argmin(x, axis=ax))
                add('argmax_axis', lambda np, mpc, x, y: np.argmax(x, axis=ax))
                add('sort', lambda np, mpc, x, y: np.sort(x))
                add('sort_axis', lambda np, mpc, x, y: np.sort(x, axis=ax))
                add('sort_none', lambda np, mpc, x, y: np.sort(x, axis=None))
                add('sort_method', lambda np, mpc, x, y: sort_inplace(x, np))
    elif fam == 'reduce':
        add('sum', lambda np, mpc, x, y: np.sum(x))
        add('sum_method', lambda np, mpc, x, y: x.sum())
        if n1 <= 3:
            add('prod', lambda np, mpc, x, y: np.prod(x), 0 if not fx else 3 * 64)
        add('all', lambda np, mpc, x, y: np.all(x == x))
        add('all_mixed', lambda np, mpc, x, y: np.all(x == y))
        add('any_mixed', lambda np, mpc, x, y: np.any(x == y))
        add('trace', lambda np, mpc, x, y: np.trace(x))
        if nd:
            add('sum_axis', lambda np, mpc, x, y: np.sum(x, axis=ax))
            add('sum_axis_keepdims', lambda np, mpc, x, y: np.sum(x, axis=ax, keepdims=True))
            add('sum_neg_axis', lambda np, mpc, x, y: x.sum(axis=-1))
            if s1[ax] <= 3:
                add('prod_axis', lambda np, mpc, x, y: np.prod(x, axis=ax), 0 if not fx else 3 * 64)
            add('all_axis', lambda np, mpc, x, y: np.all(x == y, axis=ax))
            add('any_axis', lambda np, mpc, x, y: np.any(x != y, axis=-1))
            add('cumsum', lambda np, mpc, x, y: np.cumsum(x))
            add('cumsum_axis', lambda np, mpc, x, y: np.cumsum(x, axis=ax))
            add('sum_tuple_axes', lambda np, mpc, x, y: np.sum(x, axis=tuple(range(nd))))
    elif fam == 'shape':
        add('reshape_flat', lambda np, mpc, x, y: np.reshape(x, (-1,)))
        add('reshape_method', lambda np, mpc, x, y: x.reshape(-1))
        add('flatten', lambda np, mpc, x, y: x.flatten())
        add('transpose', lambda np, mpc, x, y: np.transpose(x))
        add('T', lambda np, mpc, x, y: x.T)
        add('copy', lambda np, mpc, x, y: x.copy())
        add('expand_dims0', lambda np, mpc, x, y: np.expand_dims(x, 0))
        add('expand_dims_last', lambda np, mpc, x, y: np.expand_dims(x, -1))
        add('squeeze', lambda np, mpc, x, y: np.squeeze(x))
        add('flip', lambda np, mpc, x, y: np.flip(x))
        if nd and n1:
            add('tolist_fromlist', lambda np, mpc, x, y: x.reshape(-1) if mpc is None else mpc.np_fromlist(flat_list(mpc.np_tolist(x))))
            add('tolist_method', lambda np, mpc, x, y: flat_list(x.tolist()))
        add('broadcast_add_shape', lambda np, mpc, x, y: (x + y).shape)
        add('len_size_ndim', lambda np, mpc, x, y: (x.size, x.ndim, x.shape, len(x) if nd else -1))
        if nd:
            add('flip_axis', lambda np, mpc, x, y: np.flip(x, axis=ax))
            add('roll', lambda np, mpc, x, y: np.roll(x, 1))
            add('roll_axis', lambda np, mpc, x, y: np.roll(x, -2, axis=ax))
            add('swapaxes', lambda np, mpc, x, y: np.swapaxes(x, 0, nd - 1))
            add('flipud', lambda np, mpc, x, y: np.flipud(x))
            k = rng.choice([d for d in range(1, 13) if n1 % d == 0] or [1])
            add('reshape_2d', lambda np, mpc, x, y: np.reshape(x, (k, -1)))
        if nd >= 2:
            add('fliplr', lambda np, mpc, x, y: np.fliplr(x))
            add('rot90', lambda np, mpc, x, y: np.rot90(x))
            add('transpose_axes', lambda np, mpc, x, y: np.transpose(x, tuple(reversed(range(nd)))))
            add('diagonal', lambda np, mpc, x, y: np.diagonal(x))
        if nd <= 2:
            add('diag', lambda np, mpc, x, y: np.diag(x))
            add('diag_k', lambda np, mpc, x, y: np.diag(x, 1))
        add('diagflat', lambda np, mpc, x, y: np.diagflat(x))
    elif fam == 'stack':
        add('concatenate', lambda np, mpc, x, y: np.concatenate((x, x)))
        add('concatenate_none', lambda np, mpc, x, y: np.concatenate((x, y), axis=None))
        add('concatenate_plain', lambda np, mpc, x, y: np.concatenate((x, X, x)))
        add('stack', lambda np, mpc, x, y: np.stack((x, x, x)))
        add('stack_last', lambda np, mpc, x, y: np.stack((x, x), axis=-1))
        add('vstack', lambda np, mpc, x, y: np.vstack((x, x)))
        add('hstack', lambda np, mpc, x, y: np.hstack((x, x)))
        add('dstack', lambda np, mpc, x, y: np.dstack((x, x)))
        add('column_stack', lambda np, mpc, x, y: np.column_stack((x, x)))
        add('append', lambda np, mpc, x, y: np.append(x, y))
        add('append_axis', lambda np, mpc, x, y: np.append(x, x, axis=0))
        add('block', lambda np, mpc, x, y: np.block([[x, x], [x, x]]))
        if nd:
            add('concatenate_axis', lambda np, mpc, x, y: np.concatenate((x, x), axis=ax))
            # NB: only splits into equal sections are supported by mpyc (array_split is a documented TODO)
            k = rng.choice([d for d in (1, 2, 3) if s1[ax] % d == 0])
            add('split_sections', lambda np, mpc, x, y: list(np.split(x, k, axis=ax)))
            k0 = rng.choice([d for d in (1, 2, 3) if s1[0] % d == 0])
            add('vsplit', lambda np, mpc, x, y: list(np.vsplit(x, k0)) if nd >= 2 else list(np.split(x, k0)))
        if nd >= 2:
            k1 = rng.choice([d for d in (1, 2, 3) if s1[1] % d == 0])
            add('hsplit', lambda np, mpc, x, y: list(np.hsplit(x, k1)))
        if nd >= 3:
            k2 = rng.choice([d for d in (1, 2, 3) if s1[2] % d == 0])
            add('dsplit', lambda np, mpc, x, y: list(np.dsplit(x, k2)))
    elif fam == 'index':
        if nd:
            i0 = rng.randrange(s1[0]) if s1[0] else 0
            add('item0', lambda np, mpc, x, y: x[i0])
            add('neg_index', lambda np, mpc, x, y: x[-1])
            add('slice', lambda np, mpc, x, y: x[1:])
            add('slice_step', lambda np, mpc, x, y: x[::2])
            add('slice_rev', lambda np, mpc, x, y: x[::-1])
            add('ellipsis', lambda np, mpc, x, y: x[..., 0])
            add('newaxis', lambda np, mpc, x, y: x[None])
            add('list_index', lambda np, mpc, x, y: x[[0, -1]])
            add('iter', lambda np, mpc, x, y: [a for a in x])
            add('update_scalar', lambda np, mpc, x, y: setitem(x, 0, 5, np, mpc))
            add('update_slice', lambda np, mpc, x, y: setitem(x, slice(0, 1), x[-1:], np, mpc))
        if nd >= 2:
            i1 = rng.randrange(s1[1]) if s1[1] else 0
            add('item01', lambda np, mpc, x, y: x[i0, i1])
            add('col', lambda np, mpc, x, y: x[:, i1])
            add('row_slice', lambda np, mpc, x, y: x[i0, :])
            add('chained', lambda np, mpc, x, y: x[i0][i1])
            add('update_col', lambda np, mpc, x, y: setitem(x, (slice(None), i1), 9, np, mpc))
        if nd >= 3:
            add('item_mid', lambda np, mpc, x, y: x[:, 0, :])
    elif fam == 'linalg':
        if nd >= 1:
            add('matmul_self_T', lambda np, mpc, x, y: x @ np.swapaxes(x, -1, -2) if nd >= 2 else x @ x, 2 + 2 * max(s1[-1], 1))
            add('matmul_plain', lambda np, mpc, x, y: x @ (np.swapaxes(X, -1, -2) if nd >= 2 else X), 2 + 2 * max(s1[-1], 1))
            add('rmatmul_plain', lambda np, mpc, x, y: (np.swapaxes(X, -1, -2) if nd >= 2 else X) @ x, 2 + 2 * max(s1[0] if nd >= 2 else s1[-1], 1))
            add('np.matmul', lambda np, mpc, x, y: np.matmul(x, np.swapaxes(x, -1, -2)) if nd >= 2 else np.matmul(x, x), 2 + 2 * max(s1[-1], 1))
            add('np.dot1d', lambda np, mpc, x, y: np.dot(x.reshape(-1), x.reshape(-1)) if mpc is None else x.reshape(-1) @ x.reshape(-1), 2 + 2 * max(n1, 1))
            add('outer', lambda np, mpc, x, y: np.outer(x, x), 2)
            add('outer_plain', lambda np, mpc, x, y: np.outer(x, X), 2)
        if nd == 1:
            add('convolve', lambda np, mpc, x, y: np.convolve(x, x), 2 + 2 * max(n1, 1))
            add('convolve_plain', lambda np, mpc, x, y: np.convolve(x, np.array([1, 2, 3])), 2 + 6)
            add('vander', lambda np, mpc, x, y: np.vander(x, 3), 20)
        if nd == 2:
            add('matvec', lambda np, mpc, x, y: x @ x[0], 2 + 2 * s1[1])
            add('trace_offset', lambda np, mpc, x, y: np.trace(x, 1))
    elif fam == 'left':
        # a plain NumPy operand on the left of an operator: NumPy hands the operation to the secure operand
        add('plain_add', lambda np, mpc, x, y: X + y)
        add('plain_sub', lambda np, mpc, x, y: X - y)
        add('plain_mul', lambda np, mpc, x, y: X * y, 2)
        add('plain_eq', lambda np, mpc, x, y: X == y)
        add('np.add_plain_first', lambda np, mpc, x, y: np.add(X, y))
        add('np.subtract_plain_first', lambda np, mpc, x, y: np.subtract(X, y))
        if dt != 'secfld':
            add('plain_lt', lambda np, mpc, x, y: X < y)
            add('plain_le', lambda np, mpc, x, y: X <= y)
            add('plain_gt', lambda np, mpc, x, y: X > y)
            add('plain_ge', lambda np, mpc, x, y: X >= y)
            add('np.less_plain_first', lambda np, mpc, x, y: np.less(X, y))
            add('np.minimum_plain_first', lambda np, mpc, x, y: np.minimum(X, y))
            add('np.maximum_plain_first', lambda np, mpc, x, y: np.maximum(X, y))
            add('np_scalar_lt', lambda np, mpc, x, y: X.dtype.type(1) < y)
            add('np_scalar_sub', lambda np, mpc, x, y: X.dtype.type(1) - y)
        if fx:
            add('plain_div', lambda np, mpc, x, y: X / np_nonzero(y, np), 2 ** 11)
    elif fam == 'io':
        add('output', lambda np, mpc, x, y: x)
        add('output_pair', lambda np, mpc, x, y: [x, y])
        add('input_all', lambda np, mpc, x, y: [X + i for i in range(m)] if mpc is None else mpc.input(type(x)(X + mpc.pid)))
        add('output_receivers', lambda np, mpc, x, y: x if mpc is None else out_recv(mpc, x, X, np))
        if dt == 'secfld':
            add('output_raw', lambda np, mpc, x, y: x if mpc is None else mpc.output(x, raw=True))
        add('transfer_plain', lambda np, mpc, x, y: X if mpc is None else mpc.transfer(X, senders=0))
        add('reshare', lambda np, mpc, x, y: x if mpc is None else mpc._reshare(x))
        if dt == 'secint':
            add('to_from_bits', lambda np, mpc, x, y: x * x if mpc is None else mpc.np_from_bits(mpc.np_to_bits(x * x)))
            add('to_bits_shape', lambda np, mpc, x, y: x.shape if mpc is None else mpc.np_to_bits(x).shape[:-1])
        if dt == 'secfxp':
            add('trunc', lambda np, mpc, x, y: x / 4 if mpc is None else mpc.np_trunc(x, f=2), 2)
    return ops


def iop(x, y, o, np):
    x = x.copy()
    if o == '+':
        x += y
    elif o == '-':
        x -= y
    else:
        x *= y
    return x


def np_nonzero(y, np):
    """y with magnitudes >= 1 (y + sign(y) for plain; the same affine map without comparisons for secure arrays: y*y + 1 is always >= 1)"""
    return y * y + 1


def fld_div(x, y, np, plain):
    """x / y' in GF(P_FLD) with y' = y + (y == 0), which is never zero"""
    if not plain:
        return x / (y + (y == 0))
    ynz = np.asarray(y, dtype=object) % P_FLD
    ynz = ynz + (ynz == 0)
    inv = np.vectorize(lambda v: pow(int(v), P_FLD - 2, P_FLD), otypes=[object])(ynz)
    return (np.asarray(x, dtype=object) * inv) % P_FLD


def sort_inplace(x, np):
    if hasattr(x, 'sectype'):
        return x.sort()              # documented: the method of a secure array returns a new sorted array
    x = x.copy()
    x.sort()
    return x


def setitem(x, key, value, np, mpc):
    if mpc is not None:
        if type(x).__name__.startswith('ArraySecFxp') and isinstance(value, (int, float)):
            value = type(x).sectype(value)       # np_update of fixed-point arrays takes secure values (public ones: documented TODO)
        return mpc.np_update(x.copy(), key, value)      # documented: np_update works on the array it is given
    x = x.copy()
    x[key] = value
    return x


def flat_list(l):
    out = []
    for a in l:
        if isinstance(a, list):
            out.extend(flat_list(a))
        else:
            out.append(a)
    return out


async def out_recv(mpc, x, X, np):
    """output to party 0 only: the value at party 0, None elsewhere (reported as X so that all parties return the same expected structure)"""
    r = await mpc.output(x, receivers=[0])
    if mpc.pid == 0:
        return r
    return X if r is None else np.full(np.shape(X), 999)


def run_sharing(shard, rec, rng, np, ns, sim):
    """np_random_split / np_recombine / np_pseudorandom_share(_0) against the list-based versions"""
    from mpyc import thresha, finfields
    from vlib.oracles import ref
    import itertools
    from mpyc import gfpx
    for ci in range(shard['cases']):
        if ci % 3 == 2:
            # extension fields and prime fields take turns in one process: array sharing is a function of the field given, not of earlier calls
            ch, mod = rng.choice([(2, 283), (2, 19), (3, 'x^2+1'), (7, 'x^2+1'), (2, 'x^16+x^5+x^3+x+1')])
            F = finfields.GF(gfpx.GFpX(ch)(mod))
            m = rng.choice([2, 3, 4, 5, 7])
            m = min(m, F.order - 1)
            t = rng.randrange(0, (m + 1) // 2)
            n = rng.randrange(1, 6)
            vals = [rng.randrange(F.order) for _ in range(n)]
            case = ['sharing-ext', ci, F.order, m, t, vals]
            if not rec.wants(case):
                continue
            flat = lambda b: [int(F(x)) for x in (b.value if hasattr(b, 'value') else np.asarray(b)).reshape(-1)]
            with rec.guard(f'sharing over GF({F.order}) m={m} t={t}', case, {'mechanism': 'exception', 'fn': 'thresha'}):
                a = F.array(np.array([F(v).value for v in vals], dtype=object))
                sh_np = thresha.np_random_split(F, a, t, m)
                sh_l = thresha.random_split(F, [F(v) for v in vals], t, m)
                rec.count('sharing_crosschecks')
                rec.count('extension_field_sharings')
                for idx in itertools.combinations(range(m), t + 1):
                    back = thresha.np_recombine(F, [(i + 1, np.asarray(sh_np[i])) for i in idx])
                    if flat(back) != vals:
                        rec.violation(f'np_random_split over GF({F.order}) (m={m}, t={t}): shares of parties {idx} recombine to {flat(back)}, secret {vals}',
                                      {'mechanism': 'wrong-result', 'fn': 'np_random_split', 'field': 'extension'}, {'case': case}, case=case)
                        break
                    back = thresha.recombine(F, [(i + 1, list(np.asarray(sh_np[i]).reshape(-1))) for i in idx])
                    if [int(F(x)) for x in back] != vals:
                        rec.violation(f'np_random_split over GF({F.order}) (m={m}, t={t}): recombine() of parties {idx} gives {[int(F(x)) for x in back]}, secret {vals}',
                                      {'mechanism': 'wrong-result', 'fn': 'np_random_split', 'field': 'extension'}, {'case': case}, case=case)
                        break
                idx = rng.sample(range(m), t + 1)
                back = thresha.np_recombine(F, [(i + 1, np.array([x for x in sh_l[i]], dtype=object)) for i in idx])
                if flat(back) != vals:
                    rec.violation(f'random_split shares over GF({F.order}) recombined by np_recombine(): {back} != {vals}', {'mechanism': 'wrong-result', 'fn': 'np_recombine', 'field': 'extension'}, {'case': case}, case=case)
            rec.case(case, nontrivial=t >= 1 and n > 1)
            continue
        p = rng.choice([101, 257, 2 ** 31 - 1, 2 ** 61 - 1, (1 << 127) - 1])
        F = finfields.GF(p)
        m = rng.choice([1, 2, 3, 4, 5, 7])
        t = rng.randrange(0, (m + 1) // 2) if m > 1 else 0
        n = rng.randrange(1, 7)
        vals = [rng.randrange(p) for _ in range(n)]
        case = ['sharing', ci, p, m, t, vals]
        if not rec.wants(case):
            continue
        with rec.guard(f'sharing p={p} m={m} t={t}', case, {'mechanism': 'exception', 'fn': 'thresha'}):
            a = F.array(np.array(vals, dtype=object))
            sh_np = thresha.np_random_split(F, a, t, m)                # m arrays of raw values
            sh_l = thresha.random_split(F, [F(v) for v in vals], t, m)  # m lists of raw values
            rec.count('sharing_crosschecks')
            # any t+1 np shares recombined by the list version give the secret, and vice versa
            idx = rng.sample(range(m), t + 1)
            pts_np = [(i + 1, [int(x) for x in np.asarray(sh_np[i]).reshape(-1)]) for i in idx]
            back1 = thresha.recombine(F, pts_np)
            if [int(x) % p for x in back1] != vals:
                rec.violation(f'np_random_split shares recombined by recombine(): {[int(x) for x in back1]} != {vals} (p={p}, m={m}, t={t}, parties {idx})', {'mechanism': 'wrong-result', 'fn': 'np_random_split'}, {'case': case}, case=case)
            pts_l = [(i + 1, np.array([int(x) for x in sh_l[i]], dtype=object)) for i in idx]
            back2 = thresha.np_recombine(F, pts_l)
            if [int(x) % p for x in np.asarray(back2).reshape(-1)] != vals:
                rec.violation(f'random_split shares recombined by np_recombine(): {back2} != {vals} (p={p}, m={m}, t={t})', {'mechanism': 'wrong-result', 'fn': 'np_recombine'}, {'case': case}, case=case)
            # degree of the np sharing
            if m > t + 1:
                RF = ref.RefField(p)
                for j in range(n):
                    pts = [(RF.from_int(i + 1), RF.from_int(int(np.asarray(sh_np[i]).reshape(-1)[j]) % p)) for i in range(m)]
                    coeffs = ref.interpolate(RF, pts)
                    if ref.poly_degree(RF, coeffs) > t:
                        rec.violation(f'np_random_split sharing of degree {ref.poly_degree(RF, coeffs)} > t={t}', {'mechanism': 'degree', 'fn': 'np_random_split'}, {'case': case}, case=case)
                        break
            # PRSS: same keys, same uci -> same shares from the list and the array versions
            if m > 1:
                import itertools
                keys = {}
                for subset in itertools.combinations(range(m), m - t):
                    keys[subset] = bytes(rng.randrange(256) for _ in range(16))
                for i in range(m):
                    mine = [(s, k) for s, k in keys.items() if i in s]
                    rng.shuffle(mine)                  # a party's key table is in arrival order, not lexicographic
                    prfs = {s: thresha.PRF(k, p) for s, k in mine}
                    uci = bytes(rng.randrange(256) for _ in range(8))
                    l1 = thresha.pseudorandom_share(F, m, i, prfs, uci, n)
                    a1 = thresha.np_pseudorandom_share(F, m, i, prfs, uci, n)
                    rec.count('sharing_crosschecks')
                    if [int(x) % p for x in l1] != [int(x) % p for x in np.asarray(a1).reshape(-1)]:
                        rec.violation(f'np_pseudorandom_share != pseudorandom_share for party {i} (p={p}, m={m}, t={t})', {'mechanism': 'wrong-result', 'fn': 'np_pseudorandom_share'}, {'case': case}, case=case)
                    l0 = thresha.pseudorandom_share_zero(F, m, i, prfs, uci, n)
                    a0 = thresha.np_pseudorandom_share_0(F, m, i, prfs, uci, n)
                    rec.count('sharing_crosschecks')
                    if [int(x) % p for x in l0] != [int(x) % p for x in np.asarray(a0).reshape(-1)]:
                        rec.violation(f'np_pseudorandom_share_0 != pseudorandom_share_zero for party {i} (p={p}, m={m}, t={t})', {'mechanism': 'wrong-result', 'fn': 'np_pseudorandom_share_0'}, {'case': case}, case=case)
        rec.case(case, nontrivial=m > 1 and n > 1, sample={'p': p, 'm': m, 't': t, 'n': n} if ci == 0 else None)


def run_mixed(shard, rec, rng, np, ns, sim):
    """programs that use arrays of several secure types in one session (prime and extension fields taking turns), and that keep several array products pending
    at the same time (operands arriving from different senders, results awaited in another order): each result equals the plain NumPy / field result"""
    from mpyc import finfields, gfpx
    m, t, no_prss = shard['cfg']
    F8 = finfields.GF(gfpx.GFpX(2)(283))
    F9 = finfields.GF(gfpx.GFpX(3)('x^2+1'))
    for ci in range(shard['cases']):
        order = rng.sample(['gf256', 'secint', 'gf9', 'secfld', 'secfxp', 'gf256', 'secint'], 7)[:rng.randint(3, 6)]
        n = rng.randint(2, 4)
        data = {'gf256': ([rng.randrange(256) for _ in range(n)], [rng.randrange(1, 256) for _ in range(n)]), 'gf9': ([rng.randrange(9) for _ in range(n)], [rng.randrange(9) for _ in range(n)]),
                'secint': ([rng.randrange(-50, 50) for _ in range(n)], [rng.randrange(-50, 50) for _ in range(n)]), 'secfld': ([rng.randrange(101) for _ in range(n)], [rng.randrange(101) for _ in range(n)]),
                'secfxp': ([rng.randrange(-64, 65) / 8 for _ in range(n)], [rng.randrange(-64, 65) / 8 for _ in range(n)])}
        A = np.array([[rng.randrange(-32, 33) / 8 for _ in range(3)] for _ in range(2)])
        B = np.array([[rng.randrange(-32, 33) / 8 for _ in range(3)] for _ in range(2)])
        W1 = np.array([[rng.randrange(-16, 17) / 8 for _ in range(2)] for _ in range(3)])
        W2 = np.array([[rng.randrange(-16, 17) / 8 for _ in range(2)] for _ in range(3)])
        IA = np.array([[rng.randrange(-9, 10) for _ in range(3)] for _ in range(2)])
        IW = np.array([[rng.randrange(-9, 10) for _ in range(2)] for _ in range(3)])
        await_order = rng.sample(range(5), 5)
        sleepy = rng.randrange(m)
        case = [shard['name'], ci, order, n, await_order]
        if not rec.wants(case):
            continue

        async def program(mpc, pid):
            types = {'gf256': mpc.SecFld(2 ** 8), 'gf9': mpc.SecFld(9), 'secint': mpc.SecInt(32), 'secfld': mpc.SecFld(101), 'secfxp': mpc.SecFxp(32, F_FXP)}
            res = []
            for k in order:
                T = types[k]
                xs, ys = data[k]
                if k in ('gf256', 'gf9'):
                    Fp = T.field
                    mk = lambda vs: T.array(Fp.array(np.array([Fp(v).value for v in vs], dtype=object)))
                elif k == 'secfxp':
                    mk = lambda vs: T.array(np.array(vs), integral=False)
                else:
                    mk = lambda vs: T.array(np.array(vs))
                x = mpc.input(mk(xs if pid == 0 else [0] * n), senders=0)
                y = mpc.input(mk(ys if pid == m - 1 else [0] * n), senders=m - 1)
                r = await mpc.output(x * y + x)
                res.append([int(a) for a in r] if k != 'secfxp' else [float(a) for a in r])
            # several products pending at once
            Tx, Ti = types['secfxp'], types['secint']
            a = mpc.input(Tx.array(A if pid == 0 else np.zeros_like(A), integral=False), senders=0)
            b = mpc.input(Tx.array(B if pid == m - 1 else np.zeros_like(B), integral=False), senders=m - 1)
            ia = mpc.input(Ti.array(IA if pid == 0 else np.zeros_like(IA)), senders=0)
            pend = [a @ W1, b @ W2, W1.T @ b.T, ia @ IW, a @ b.T]
            if pid == sleepy:
                for _ in range(3):
                    await asyncio.sleep(0)
            outs = [None] * 5
            for j in await_order:
                outs[j] = await mpc.output(pend[j])
            res.append([np.asarray(o, dtype=float).tolist() for o in outs])
            return res
        w = sim.World(m, t, no_prss, seed=rng.randrange(1 << 30), policy=rng.choice(sim.POLICIES)).run(program, max_steps=3_000_000)
        rec.count('worlds')
        rec.count('multi_party_worlds')
        rec.count('mixed_type_sessions')
        res = w.ok_results()
        feats = {'family': 'mixed', 'dtype': 'several', 'm_gt_1': True, 't_gt_0': t > 0}
        if res is None:
            rec.violation(f'{shard["name"]}: session {order} did not complete: {w.status} {w.error_summaries()[:1]} {[r for r in w.results() if r[0] == "EXC"][:1]}', dict(feats, mechanism='no-completion', symptom='hangs' if w.status in ('DEADLOCK', 'STUCK', 'STEP-LIMIT') else 'raises'), {'case': case}, case=case)
            continue
        exp = []
        for k in order:
            xs, ys = data[k]
            if k == 'gf256':
                exp.append([int(F8(a) * F8(b) + F8(a)) for a, b in zip(xs, ys)])
            elif k == 'gf9':
                exp.append([int(F9(a) * F9(b) + F9(a)) for a, b in zip(xs, ys)])
            elif k == 'secfld':
                exp.append([(a * b + a) % 101 for a, b in zip(xs, ys)])
            else:
                exp.append([a * b + a for a, b in zip(xs, ys)])
        exp_p = [A @ W1, B @ W2, W1.T @ B.T, IA @ IW, A @ B.T]
        for pid, r in enumerate(res):
            bad = None
            for k, g, e in zip(order, r, exp):
                rec.count('values_compared', len(e))
                rec.seen('ops', f'mixed:{k}')
                if k == 'secfld':
                    g = [a % 101 for a in g]
                if (k == 'secfxp' and any(abs(a - b) > 4 * 2.0 ** -F_FXP * (1 + abs(b)) for a, b in zip(g, e))) or (k != 'secfxp' and g != e):
                    bad = f'x*y+x over {k} (after {order[:order.index(k)]}): {g}, expected {e}'
                    break
            if bad is None:
                for j, (g, e) in enumerate(zip(r[-1], exp_p)):
                    rec.count('values_compared', int(np.asarray(e).size))
                    rec.count('pending_products_checked')
                    if np.asarray(g).shape != np.asarray(e).shape or np.max(np.abs(np.asarray(g, dtype=float) - np.asarray(e, dtype=float))) > 64 * 2.0 ** -F_FXP:
                        bad = f'product {j} of [a@W1, b@W2, W1.T@b.T, ia@IW, a@b.T] pending together (awaited in order {await_order}): {np.asarray(g).tolist()}, NumPy gives {np.asarray(e).tolist()}'
                        break
            if bad:
                rec.violation(f'{shard["name"]}: party {pid}: {bad}', dict(feats, mechanism='wrong-result', symptom='wrong-value'), {'case': case}, case=case)
                break
        rec.case(case, nontrivial=True, sample={'config': shard['cfg'], 'session': order} if ci == 0 else None)
