"""C30 — bit-level oblivious building blocks are correct for all inputs."""
import random
import itertools

PROPERTY = 'C30'
ENGINE = 'SIM'
LEVEL = 'exploration'
TECHNIQUE = 'runtime oracle monitor: real add_bits, to_bits/from_bits, find (all documented option variants), unit_vector, trailing_zeros, gcp2 run on enumerated inputs at m=1 and on samples under SIM; compared with integer arithmetic'
RULE = ('case = (function, input bit vector / value, options); non-trivial = input not all-zero and length >= 2; distinct by that tuple')
EXHAUSTIVE = 'add_bits: all pairs of n-bit vectors n <= 4 (5 thorough); to_bits/from_bits: all values of secint(l<=6), secfxp(6,2), GF(2^4), GF(13), GF(257) sample; find: all bit vectors n <= 6 (8) x a in {0,1,secret 0,secret 1} x e variants x (f, cs_f) variants; unit_vector: all 0 <= a < n <= 12 (17); trailing_zeros, gcp2: all pairs of 4-bit (5-bit) values'
ASSUMPTIONS = ['Python integer arithmetic is the specification', 'trailing_zeros is only specified up to and including the lowest 1 bit']
REQUIRE = {'any': {'add_bits': 200, 'bits_roundtrip': 150, 'find': 800, 'unit_vector': 60, 'trailing_zeros': 15, 'gcp2': 100}}
LEVEL_TEXT = 'exploration, exhaustive over bounded bit lengths at m=1, plus SIM spot checks in 3 configurations'
LEVEL_NOTE = 'trusted: Python ints'
TIMEOUT = {'quick': 900, 'thorough': 10000}

from vlib.runner import config_name


def shards(tier, seed):
    big = tier == 'thorough'
    out = [{'name': 'add_bits', 'kind': 'add_bits', 'n': 5 if big else 4}, {'name': 'bits', 'kind': 'bits'},
           {'name': 'find-a', 'kind': 'find', 'n': 8 if big else 6, 'part': 0}, {'name': 'find-b', 'kind': 'find', 'n': 8 if big else 6, 'part': 1},
           {'name': 'unit_vector', 'kind': 'unit', 'n': 17 if big else 12}, {'name': 'tz-gcp2', 'kind': 'tz', 'l': 5 if big else 4}]
    for c in [(3, 1, False), (3, 1, True), (5, 2, False)]:
        out.append({'name': config_name(c), 'kind': 'sim', 'cfg': list(c), 'cases': 6 * (8 if big else 3)})
    return out


def bits_of(v, n):
    return [(v >> i) & 1 for i in range(n)]


def run(shard, rec):
    from vlib import env
    env.prepare()
    from vlib import sim
    ns = sim.install()
    rng = random.Random(f"c30/{shard['seed']}/{shard['name']}")
    mpc = ns.default_rt
    sim.CUR.set(mpc)
    out = lambda x: mpc.run(mpc.output(x))
    kind = shard['kind']
    secint = mpc.SecInt(8)

    if kind == 'add_bits':
        for n in range(0, shard['n'] + 1):
            for a in range(1 << n):
                for b in range(1 << n):
                    case = ['add_bits', n, a, b]
                    if not rec.wants(case):
                        continue
                    with rec.guard(f'add_bits n={n} {a}+{b}', case, {'fn': 'add_bits', 'mechanism': 'exception'}):
                        r = mpc.add_bits([secint(x) for x in bits_of(a, n)], [secint(x) for x in bits_of(b, n)])
                        got = out(list(r)) if n else []
                        rec.count('add_bits')
                        if got != bits_of((a + b) % (1 << n), n):
                            rec.violation(f'add_bits of {bits_of(a, n)} and {bits_of(b, n)} = {got}, expected {bits_of((a + b) % (1 << n), n)}', {'fn': 'add_bits', 'mechanism': 'wrong-result'}, {'case': case}, case=case)
                    rec.case(case, nontrivial=n >= 2 and a and b)
        return
    if kind == 'bits':
        for l in (1, 2, 3, 4, 5, 6):
            T = mpc.SecInt(l)
            lim = 1 << (l - 1)
            for v in range(-lim, lim):
                case = ['to_bits-secint', l, v]
                if not rec.wants(case):
                    continue
                with rec.guard(f'to_bits secint{l}({v})', case, {'fn': 'to_bits', 'mechanism': 'exception'}):
                    b = mpc.to_bits(T(v))
                    got = out(list(b))
                    rec.count('bits_roundtrip')
                    if got != bits_of(v % (1 << l), l):
                        rec.violation(f'to_bits(secint{l}({v})) = {got}', {'fn': 'to_bits', 'mechanism': 'wrong-result'}, {'case': case}, case=case)
                    back = out(mpc.from_bits(b))         # recomposition is the non-negative number with that binary representation
                    if back != v % (1 << l):
                        rec.violation(f'from_bits(to_bits(secint{l}({v}))) = {back}', {'fn': 'from_bits', 'mechanism': 'wrong-result'}, {'case': case}, case=case)
                    for ll in range(0, l + 1):
                        got2 = out(list(mpc.to_bits(T(v), ll))) if ll else []
                        if got2 != bits_of(v % (1 << l), l)[:ll]:
                            rec.violation(f'to_bits(secint{l}({v}), {ll}) = {got2}', {'fn': 'to_bits-l', 'mechanism': 'wrong-result'}, {'case': case}, case=case)
                rec.case(case, nontrivial=v not in (0, -1))
        F = mpc.SecFxp(6, 2)
        for units in range(-32, 32):
            v = units / 4
            case = ['to_bits-secfxp', units]
            if not rec.wants(case):
                continue
            with rec.guard(f'to_bits secfxp(6,2)({v})', case, {'fn': 'to_bits-fxp', 'mechanism': 'exception'}):
                b = mpc.to_bits(F(v))
                got = [int(x) for x in out(list(b))]
                rec.count('bits_roundtrip')
                if got != bits_of(units % 64, 6):
                    rec.violation(f'to_bits(secfxp(6,2)({v})) = {got}', {'fn': 'to_bits-fxp', 'mechanism': 'wrong-result'}, {'case': case}, case=case)
                back = out(mpc.from_bits(b))             # = the integer whose binary representation the bits are (all l bits incl. fractional ones)
                if back != units % 64:
                    rec.violation(f'from_bits(to_bits(secfxp({v}))) = {back}', {'fn': 'from_bits-fxp', 'mechanism': 'wrong-result'}, {'case': case}, case=case)
            rec.case(case, nontrivial=units not in (0, -1))
        for (desc, q, nb) in (({'order': 16}, 16, 4), ({'order': 13}, 13, 4), ({'order': 257}, 257, 9), ({'order': 2}, 2, 1), ({'order': 256}, 256, 8)):
            T = mpc.SecFld(**desc)
            for v in (range(q) if q <= 16 else rng.sample(range(q), 40) + [0, 1, q - 1]):
                case = ['to_bits-secfld', q, v]
                if not rec.wants(case):
                    continue
                with rec.guard(f'to_bits secfld{q}({v})', case, {'fn': 'to_bits-fld', 'mechanism': 'exception'}):
                    b = mpc.to_bits(T(v))
                    got = [int(x) for x in out(list(b))]
                    rec.count('bits_roundtrip')
                    if got != bits_of(v, nb):
                        rec.violation(f'to_bits(SecFld({q})({v})) = {got}, expected {bits_of(v, nb)}', {'fn': 'to_bits-fld', 'mechanism': 'wrong-result'}, {'case': case}, case=case)
                    if q in (16, 256, 2):
                        back = int(out(mpc.from_bits(b)))
                        if back != v:
                            rec.violation(f'from_bits(to_bits(SecFld({q})({v}))) = {back}', {'fn': 'from_bits-fld', 'mechanism': 'wrong-result'}, {'case': case}, case=case)
                rec.case(case, nontrivial=v > 1)
        return
    if kind == 'find':
        variants = []
        for a_kind in ('pub0', 'pub1', 'sec0', 'sec1'):
            for e in ('default', -1, None, 'len(x)-1', 7):
                for fk in ('none', 'f', 'cs_f', 'f_tuple'):
                    variants.append((a_kind, e, fk))
        variants = [v for i, v in enumerate(variants) if i % 2 == shard['part']]
        for n in range(0, shard['n'] + 1):
            for xbits in itertools.product((0, 1), repeat=n):
                x = list(xbits)
                for (a_kind, e, fk) in (variants if n <= 4 else rng.sample(variants, 8)):
                    if n == 0 and (a_kind.startswith('sec') or (e == 'len(x)-1' and fk != 'none')):
                        continue        # f(-1) is not defined for the harness' example functions
                    case = ['find', x, a_kind, str(e), fk]
                    if not rec.wants(case):
                        continue
                    a = int(a_kind[-1])
                    arg_a = a if a_kind.startswith('pub') else secint(a)
                    kw = {}
                    if e != 'default':
                        kw['e'] = e
                    f = None
                    if fk == 'f':
                        kw['f'] = f = lambda i: 2 ** i if i >= 0 else 0
                        if e == -1:
                            continue
                    elif fk == 'cs_f':
                        kw['cs_f'] = lambda b, i: (b + 1) * 2 ** i
                        f = lambda i: 2 ** i
                        if e == -1:
                            continue
                    elif fk == 'f_tuple':
                        kw['f'] = f = lambda i: (i, 3 * i + 1)
                    with rec.guard(f'find({x}, {a_kind}, e={e}, {fk})', case, {'fn': 'find', 'mechanism': 'exception'}):
                        r = mpc.find([secint(b) for b in x], arg_a, **kw)
                        rec.count('find')
                        first = x.index(a) if a in x else None
                        if e is None:
                            nf, ix = r
                            if n == 0:
                                gnf, gix = (nf if isinstance(nf, int) else out(nf)), ix
                            else:
                                gnf = out(nf)
                                gix = ix
                            exp_nf = int(first is None)
                            exp_ix = first if first is not None else n
                        else:
                            gix = r
                            E = n if e == 'default' else (n - 1 if e == 'len(x)-1' else e)
                            exp_ix = first if first is not None else E
                            gnf = exp_nf = None
                        expv = f(exp_ix) if f else exp_ix

                        def opened(v):
                            if isinstance(v, (list, tuple)):
                                return type(expv)(opened(z) for z in v) if isinstance(expv, (list, tuple)) else [opened(z) for z in v]
                            return v if isinstance(v, int) else out(v)
                        got = opened(gix)
                        if isinstance(got, list) and len(got) == 1 and not isinstance(expv, (list, tuple)):
                            got = got[0]
                        if got != expv or gnf != exp_nf:
                            rec.violation(f'find({x}, a={a_kind}, e={e}, {fk}) = {got} (nf={gnf}), expected {expv} (nf={exp_nf})', {'fn': 'find', 'mechanism': 'wrong-result', 'variant': fk, 'e': str(e)},
                                          {'case': case}, case=case)
                    rec.case(case, nontrivial=n >= 2 and any(x), sample={'fn': 'find', 'x': x, 'a': a_kind, 'e': str(e), 'f': fk} if n == 3 and x == [0, 1, 0] and fk == 'f' else None)
        return
    if kind == 'unit':
        for n in range(1, shard['n'] + 1):
            for a in range(n):
                case = ['unit_vector', a, n]
                if not rec.wants(case):
                    continue
                with rec.guard(f'unit_vector({a},{n})', case, {'fn': 'unit_vector', 'mechanism': 'exception'}):
                    got = out(mpc.unit_vector(mpc.SecInt(8)(a), n))
                    rec.count('unit_vector')
                    if got != [int(i == a) for i in range(n)]:
                        rec.violation(f'unit_vector({a}, {n}) = {got}', {'fn': 'unit_vector', 'mechanism': 'wrong-result'}, {'case': case}, case=case)
                rec.case(case, nontrivial=n >= 2)
        return
    if kind == 'tz':
        l = shard['l']
        T = mpc.SecInt(l + 1)
        for a in range(0, 1 << l):
            case = ['trailing_zeros', a]
            if rec.wants(case):
                with rec.guard(f'trailing_zeros({a})', case, {'fn': 'trailing_zeros', 'mechanism': 'exception'}):
                    got = out(list(mpc.trailing_zeros(T(a))))
                    rec.count('trailing_zeros')
                    full = bits_of(a, l + 1)
                    upto = (full.index(1) + 1) if 1 in full else 0
                    if got[:upto] != full[:upto] or (upto == 0 and any(got)):
                        rec.violation(f'trailing_zeros({a}) = {got}, correct prefix {full[:upto]}', {'fn': 'trailing_zeros', 'mechanism': 'wrong-result'}, {'case': case}, case=case)
                rec.case(case, nontrivial=a > 1)
            for b in range(0, 1 << l):
                if a == 0 and b == 0:
                    continue
                case = ['gcp2', a, b]
                if not rec.wants(case):
                    continue
                with rec.guard(f'gcp2({a},{b})', case, {'fn': 'gcp2', 'mechanism': 'exception'}):
                    got = out(mpc.gcp2(T(a), T(b)))
                    rec.count('gcp2')
                    g = (a | b) & -(a | b)
                    if got != g:
                        rec.violation(f'gcp2({a},{b}) = {got}, expected {g}', {'fn': 'gcp2', 'mechanism': 'wrong-result'}, {'case': case}, case=case)
                rec.case(case, nontrivial=a > 1 and b > 1)
        return
    m, t, no_prss = shard['cfg']
    for ci in range(shard['cases']):
        n = rng.randint(2, 5)
        a, b = rng.randrange(1 << n), rng.randrange(1 << n)
        x = [rng.randint(0, 1) for _ in range(6)]
        v = rng.randrange(-100, 100)
        case = [shard['name'], n, a, b, x, v]
        if not rec.wants(case):
            continue

        async def program(mpc, pid, n=n, a=a, b=b, x=x, v=v):
            secint = mpc.SecInt(8)
            xa = mpc.input([secint(z if pid == 0 else 0) for z in bits_of(a, n)], senders=0)
            xb = mpc.input([secint(z if pid == 0 else 0) for z in bits_of(b, n)], senders=0)
            sx = mpc.input([secint(z if pid == 0 else 0) for z in x], senders=0)
            sv = mpc.input(secint(v if pid == 0 else 0), senders=0)
            r1 = mpc.add_bits(xa, xb)
            r2 = mpc.find(sx, 1)
            r3 = mpc.to_bits(sv)
            bits = list(r3)
            r4 = mpc.from_bits(bits)
            # the caller goes on using its own lists (as the library itself does with bit lists): results must be those of the arguments as passed
            bits.reverse()
            xa_, xb_, sx_ = list(xa), list(xb), list(sx)
            xa.reverse(); xb[:] = xb[::-1]; sx[0:2] = sx[1::-1]
            r5 = mpc.unit_vector(r2 % 4 if False else mpc.min(r2, secint(3)), 4)
            r6 = mpc.gcp2(sv + 128, secint(12))
            # whole fixed-point numbers that are properly shared (input by a party, and computed from such inputs)
            secfxp = mpc.SecFxp(12, 4)
            fv, fi, fj = mpc.input([secfxp(z if pid == 0 else 0) for z in (v, 1 + (a % 2), b % 2)], senders=0)
            assert fv.integral and fi.integral
            r7 = mpc.to_bits(fv)
            r8 = mpc.to_bits(fv, 4 + 5)[4:]
            r9 = mpc.unit_vector(fi * fj + fi, 5)
            r10 = mpc.from_bits(mpc.to_bits(fv * fi, 4 + 7)[4:])
            fx = [await mpc.output(list(r7)), await mpc.output(list(r8)), await mpc.output(r9), await mpc.output(r10)]
            return [await mpc.output(list(r1)), await mpc.output(r2), await mpc.output(list(r3)), await mpc.output(r4), await mpc.output(r5), await mpc.output(r6)] + fx
        w = sim.World(m, t, no_prss, seed=rng.randrange(1 << 30), policy=rng.choice(sim.POLICIES)).run(program)
        res = w.ok_results()
        if res is None:
            rec.violation(f'{shard["name"]}: run did not complete {w.status} {w.error_summaries()[:1]}', {'fn': 'sim', 'mechanism': 'no-completion'}, {'case': case}, case=case)
            continue
        first = x.index(1) if 1 in x else 6
        g = ((v + 128) | 12) & -((v + 128) | 12)
        fi_, fj_ = 1 + (a % 2), b % 2
        exp = [bits_of((a + b) % (1 << n), n), first, bits_of(v % 256, 8), v % 256, [int(i == min(first, 3)) for i in range(4)], g,
               bits_of((v << 4) % (1 << 12), 12), bits_of(v % 32, 5), [int(i == fi_ * fj_ + fi_) for i in range(5)], (v * fi_) % 128]
        rec.count('fxp_whole_number_bits_shared')
        rec.count('add_bits')
        rec.count('find')
        for pid, r in enumerate(res):
            if r != exp:
                rec.violation(f'{shard["name"]}: party {pid} obtained {r}, expected {exp}', {'fn': 'sim', 'mechanism': 'wrong-result'}, {'case': case}, case=case)
                break
        rec.case(case, nontrivial=True, sample={'config': shard['name'], 'a': a, 'b': b, 'x': x, 'v': v} if ci == 0 else None)
