"""C22 — field elements survive serialisation (byte encoding, pickling, signed/unsigned views)."""
import random
import pickle

PROPERTY = 'C22'
ENGINE = 'UNIT'
LEVEL = 'exploration'
TECHNIQUE = 'runtime round-trip monitor on real to_bytes/from_bytes, pickle (all protocols) and signed_/unsigned_/int views, over exhaustive small fields and random large ones'
RULE = ('case = (field, value list) for byte encoding; (field, element, protocol) for pickling; non-trivial = list length >= 2 or element not in {0,1}; '
        'distinct by that tuple')
EXHAUSTIVE = 'all elements of the 11 small fields (each also as singleton list and in one full-field list)'
ASSUMPTIONS = ['pickle and int.to_bytes of CPython are correct']
REQUIRE = {'any': {'byte_roundtrips': 800, 'pickle_roundtrips': 2000, 'views_checked': 1500}}
LEVEL_TEXT = 'exploration: exhaustive elements on small fields, random on large fields with byte-length boundary orders (255/256/257-bit, 2^8k +- 1)'
LEVEL_NOTE = 'trusted: CPython pickle/int'

from checks.c20 import SMALL
LARGE = [('p', 251), ('p', 257), ('p', 65521), ('p', 65537), ('p', 2**61 - 1), ('p', 2**255 - 19), ('p', 2**256 - 189), ('p', 2**127 - 1),
         ('p', 2**64 - 59), ('p', 2**64 + 13), ('x', 2, 'x^8+x^4+x^3+x+1'), ('x', 2, 'x^9+x+1'), ('x', 3, 'x^5+2x+1'), ('x', 2, 'x^128+x^7+x^2+x+1'),
         ('x', 2, 'x^16+x^5+x^3+x+1'), ('x', 7, 'x^3+6x^2+4'),
         # one field per byte length 3..9 (prime and binary)
         ('p', 2**24 - 3), ('p', 2**31 - 1), ('p', 2**32 - 5), ('p', 2**40 - 87), ('p', 2**48 - 59), ('p', 2**56 - 5), ('p', 2**72 - 93),
         ('x', 2, 'x^24+x^4+x^3+x+1'), ('x', 2, 'x^31+x^3+1'), ('x', 2, 'x^32+x^7+x^3+x^2+1'), ('x', 2, 'x^40+x^5+x^4+x^3+1')]


def shards(tier, seed):
    out = [{'name': f'small-{i}', 'field': list(f), 'mode': 'all'} for i, f in enumerate(SMALL)]
    out += [{'name': f'large-{i}', 'field': list(f), 'mode': 'random', 'n': 80 if tier == 'quick' else 30000} for i, f in enumerate(LARGE)]
    return out


def run(shard, rec):
    from vlib import env
    env.prepare()
    from checks.c12 import make_field
    field = make_field(shard['field'])
    q = field.order
    p = field.characteristic
    fname = repr(shard['field'])
    rng = random.Random(f"c22/{shard['seed']}/{fname}")
    signed0 = field.is_signed

    def roundtrip(vals):
        case = [fname, 'bytes', [str(v) for v in vals[:8]], len(vals)]
        if not rec.wants(case):
            return
        elems = [field(v) for v in vals]
        rec.count('byte_roundtrips')
        with rec.guard(f'{fname}: to_bytes/from_bytes of {len(vals)} values', case, {'mechanism': 'bytes-roundtrip'}) as g:
            data = field.to_bytes([e.value for e in elems])
            back = [field(v) for v in field.from_bytes(data)]
        if g.failed:
            return
        if not isinstance(data, (bytes, bytearray)):
            rec.violation(f'{fname}: to_bytes returned {type(data).__name__}', {'mechanism': 'to_bytes-type'}, {'case': case}, case=case)
            return
        if back != elems or [b.value for b in back] != [e.value for e in elems]:
            rec.violation(f'{fname}: from_bytes(to_bytes(x)) != x for list of {len(vals)} (first {vals[:4]})', {'mechanism': 'bytes-roundtrip'},
                          {'case': case, 'data': data[:40]}, case=case)
        rec.case(case, nontrivial=len(vals) >= 2 or any(v > 1 for v in vals),
                 sample={'field': fname, 'values': [str(v) for v in vals[:4]], 'n': len(vals), 'bytes': len(data)} if rng.random() < 0.01 else None)

    def elem_checks(v):
        e = field(v)
        for proto in range(0, pickle.HIGHEST_PROTOCOL + 1):
            case = [fname, 'pickle', str(v), proto]
            if not rec.wants(case):
                continue
            e2 = pickle.loads(pickle.dumps(e, protocol=proto))
            rec.count('pickle_roundtrips')
            if type(e2) is not type(e) or e2 != e or e2.value != e.value:
                rec.violation(f'{fname}: pickle protocol {proto} of {v}: got {e2!r} of {type(e2).__name__}', {'mechanism': 'pickle'}, {'case': case}, case=case)
            rec.case(case, nontrivial=v > 1)
        if field.ext_deg == 1:
            case = [fname, 'views', str(v)]
            if rec.wants(case):
                s, u = e.signed_(), e.unsigned_()
                rec.count('views_checked')
                bad = None
                if (s - u) % p != 0 or (s - v) % p != 0:
                    bad = f'signed_ {s} / unsigned_ {u} not congruent to {v}'
                elif not (-p < 2 * s <= p if p > 2 else s in (0, 1)):
                    bad = f'signed_ {s} outside (-p/2, p/2]'
                elif not 0 <= u < p:
                    bad = f'unsigned_ {u} outside [0,p)'
                else:
                    for flag in (True, False):
                        field.is_signed = flag
                        if int(e) != (s if flag else u):
                            bad = f'int() = {int(e)} does not follow is_signed={flag}'
                    field.is_signed = signed0
                if bad:
                    rec.violation(f'{fname}: {bad}', {'mechanism': 'signed-views'}, {'case': case}, case=case)
                rec.case(case, nontrivial=v > 1)
        else:
            case = [fname, 'views', str(v)]
            if rec.wants(case):
                rec.count('views_checked')
                if int(e) != v % q:
                    rec.violation(f'{fname}: int(F({v})) = {int(e)}', {'mechanism': 'int-view'}, {'case': case}, case=case)
                rec.case(case, nontrivial=v > 1)

    # pickle must give back the same field type whatever else the process did in between (multi-step history: many other fields created)
    case = [fname, 'pickle-after-other-fields']
    if rec.wants(case):
        from mpyc import finfields, gfpx
        from vlib.oracles import ref
        e = field(rng.randrange(q))
        blobs = [pickle.dumps(e, protocol=pr) for pr in (0, 2, pickle.HIGHEST_PROTOCOL)]
        cnt, n_ = 0, 1000 + rng.randrange(1000)
        while cnt < 140:                                 # 140 further prime fields
            n_ += 1
            if ref.is_prime_td(n_):
                finfields.GF(n_)
                cnt += 1
        P2 = gfpx.GFpX(2)
        pol = P2(1 << 9)
        for _ in range(140):                             # 140 further binary fields
            pol = P2.next_irreducible(pol)
            finfields.GF(pol)
        rec.count('pickle_after_history')
        for blob in blobs:
            e2 = pickle.loads(blob)
            ok = type(e2) is type(e) and e2 == e
            try:
                ok = ok and (e2 + e == e + e) and (e2 - e == field(0))
            except Exception as ex:
                ok = False
            if not ok:
                rec.violation(f'{fname}: after creating 280 other fields, unpickling gives an element of a different field type ({type(e2).__name__} is {type(e).__name__}: {type(e2) is type(e)}; equal: {e2 == e})',
                              {'mechanism': 'pickle-field-identity'}, {'case': case}, case=case)
                break
        rec.case(case, nontrivial=True)

    # one payload well above 64 KiB (block-wise decoding must respect element boundaries for every byte length)
    r_len = (q.bit_length() + 7) // 8 if field.ext_deg == 1 else ((q - 1).bit_length() + 7) // 8
    nbig = 150000 // max(1, r_len) + 7
    big = [rng.randrange(q) for _ in range(nbig)]
    case = [fname, 'bytes-large', nbig]
    if rec.wants(case):
        rec.count('byte_roundtrips')
        rec.count('large_payloads')
        with rec.guard(f'{fname}: to_bytes/from_bytes of {nbig} values', case, {'mechanism': 'bytes-roundtrip'}) as g:
            data = field.to_bytes([field(v).value for v in big])
            back = field.from_bytes(data)
        if not g.failed:
            backv = [field(v) for v in back]
            if len(backv) != nbig or backv != [field(v) for v in big]:
                firstbad = next((i for i in range(min(len(backv), nbig)) if backv[i] != field(big[i])), min(len(backv), nbig))
                rec.violation(f'{fname}: from_bytes(to_bytes(x)) != x for a list of {nbig} values ({len(data)} bytes): {len(backv)} values back, first difference at index {firstbad}',
                              {'mechanism': 'bytes-roundtrip', 'large': True}, {'case': case}, case=case)
        rec.case(case, nontrivial=True)

    if shard['mode'] == 'all':
        roundtrip([])
        for v in range(q):
            roundtrip([v])
            elem_checks(v)
        roundtrip(list(range(q)))
        for n in (2, 3, 17, 300):
            roundtrip([rng.randrange(q) for _ in range(n)])
    else:
        special = [0, 1, q - 1, q // 2, q // 2 + 1, 255 % q, 256 % q, 65535 % q, 65536 % q, (1 << (8 * ((q.bit_length() - 1) // 8))) % q]
        roundtrip([])
        roundtrip(special)
        for v in special:
            roundtrip([v])
            elem_checks(v)
        for _ in range(shard['n']):
            n = rng.choice([1, 2, 3, 10, 100, 300])
            roundtrip([rng.choice(special) if rng.random() < 0.2 else rng.randrange(q) for _ in range(n)])
            elem_checks(rng.randrange(q))
