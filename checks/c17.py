"""C17 — the PRF is deterministic and its outputs lie in range."""
import os
import sys
import json
import random
import hashlib
import subprocess

PROPERTY = 'C17'
ENGINE = 'UNIT'
LEVEL = 'exploration'
TECHNIQUE = 'runtime contract monitor on the real PRF.__call__ (range, count/shape, scalar/list/array consistency, determinism across calls, objects and processes with different hash seeds)'
RULE = ('case = (key, bound, input, n or shape); non-trivial = bound >= 2 and at least one value requested; distinct by that tuple; '
        'determinism judged by re-evaluation, a fresh PRF object and a fresh interpreter with another PYTHONHASHSEED')
ASSUMPTIONS = ['hashlib.shake_128 is deterministic']
REQUIRE = {'any': {'calls_checked': 2000, 'cross_process_digests': 2}}
LEVEL_TEXT = 'exploration over keys x bounds (powers of two and not, 1 .. 2^256) x inputs x counts/shapes, with cross-process determinism'
LEVEL_NOTE = 'trusted: hashlib; numpy only for the shape variants'

BOUNDS = [1, 2, 3, 7, 8, 100, 255, 256, 257, 2**16, 2**16 + 1, 2**61 - 1, 2**64, 2**128 - 159, 2**256, 2**255 - 19]
KEYLENS = [0, 1, 16, 64]
INPUTS = [b'', b'\x00', b'12345678', bytes(range(256)) * 4]
COUNTS = [None, 0, 1, 2, 5, 1000]
SHAPES = [(0,), (3,), (2, 3), (1, 1, 4), ()]


def shards(tier, seed):
    out = [{'name': 'list', 'np': False, 'extra': 200 if tier == 'quick' else 100000},
           {'name': 'np', 'np': True, 'extra': 100 if tier == 'quick' else 30000}]
    return out


def digest_run(seed, np_flag):
    """evaluate a fixed battery and return a digest (called in this and in a fresh process)"""
    from mpyc import thresha
    r = random.Random(f'c17-battery/{seed}')
    h = hashlib.sha256()
    for kl in KEYLENS:
        key = r.randbytes(kl)
        for b in BOUNDS:
            f = thresha.PRF(key, b)
            for s in INPUTS:
                for n in (None, 3):
                    h.update(repr(f(s, n)).encode())
    return h.hexdigest()


def run(shard, rec):
    if shard.get('child'):
        return
    from vlib import env
    env.prepare(numpy=shard['np'])
    from mpyc import thresha
    np = None
    if shard['np']:
        import numpy as np
    rng = random.Random(f"c17/{shard['seed']}/{shard['name']}")

    def check(key, bound, s, n):
        case = [key.hex(), str(bound), s.hex()[:40], len(s), repr(n)]
        if not rec.wants(case):
            return
        f = thresha.PRF(key, bound)
        y = f(s, n)
        y2 = f(s, n)
        y3 = thresha.PRF(bytes(key), bound)(bytes(s), n)
        rec.count('calls_checked')
        bad = None
        if isinstance(n, tuple):
            cnt = 1
            for d in n:
                cnt *= d
            if tuple(y.shape) != tuple(n):
                bad = f'shape {y.shape} != requested {n}'
            flat = list(y.reshape(-1)) if not bad else []
            if not bad and (list(y2.reshape(-1)) != flat or list(y3.reshape(-1)) != flat):
                bad = 'not deterministic (array)'
            ref_list = f(s, cnt)
            if not bad and flat != ref_list:
                bad = 'array variant != list variant'
            if not bad:
                other = f(s + b'!', n)                        # another request of the same size on the same object ...
                if list(y.reshape(-1)) != flat:               # ... must leave the array handed out before untouched
                    bad = 'an array returned earlier was changed by a later call on the same PRF object'
        elif n is None:
            flat = [y]
            if y2 != y or y3 != y:
                bad = 'not deterministic (scalar)'
            if not bad and isinstance(y, list):
                bad = 'scalar request returned a list'
            one = f(s, 1)
            if not bad and one != [y]:
                bad = f'scalar {y} != first of list {one}'
        else:
            flat = list(y)
            if len(flat) != n:
                bad = f'{len(flat)} values for n={n}'
            if not bad and (y2 != y or y3 != y):
                bad = 'not deterministic (list)'
            if not bad and n >= 1 and f(s) != flat[0]:
                bad = 'first of list != scalar'
        if not bad and isinstance(n, int) and n >= 1:
            # call history on one object must not matter: smaller request, other input, then the larger request again; prefix property
            g = thresha.PRF(key, bound)
            small = g(s, max(1, n // 3))
            again = g(s, n)                      # same input, immediately after a shorter request
            longer = g(s, n + 5)
            other = g(s + b'x', n)
            if g(s, n) != again:
                again = None                      # ... and after a request for another input
            if again != flat:
                bad = f'result depends on the call history of the PRF object: {(again or ["(changes again after a request for another input)"])[:6]}... after a shorter request for the same input, {flat[:6]}... from a fresh object'
            elif small != flat[:len(small)] or longer[:n] != flat:
                bad = 'requests of different length for one input are not prefixes of each other'
            elif bound > 2 ** 16 and n >= 2 and other == flat:
                bad = 'different inputs give identical outputs'
            rec.count('history_sequences')
        if not bad:
            for v in flat:
                if not (isinstance(v, int) or (np is not None and isinstance(v, np.integer))) or not 0 <= v < bound:
                    bad = f'value {v!r} outside range({bound})'
                    break
        if bad:
            rec.violation(f'PRF(key[{len(key)}], bound={bound})(input[{len(s)}], n={n}): {bad}', {'mechanism': 'prf'}, {'case': case}, case=case)
        rec.case(case, nontrivial=bound >= 2 and n != 0 and n != (0,), sample={'keylen': len(key), 'bound': str(bound), 'input_len': len(s), 'n': repr(n), 'first': str(flat[:2])} if rng.random() < 0.002 else None)

    counts = COUNTS + (SHAPES if np is not None else [])
    for kl in KEYLENS:
        key = rng.randbytes(kl)
        for b in BOUNDS:
            for s in INPUTS:
                for n in counts:
                    if n == () and np is not None:
                        continue
                    check(key, b, s, n)
    for _ in range(shard['extra']):
        b = rng.choice([rng.randrange(1, 1 << rng.choice([1, 8, 9, 17, 64, 130])), 1 << rng.randrange(0, 200)])
        n = rng.choice(counts)
        if n == ():
            continue
        check(rng.randbytes(rng.choice(KEYLENS)), b, rng.randbytes(rng.randrange(0, 40)), n)
    # different keys / inputs give different streams (sanity: PRF depends on key and input)
    f1, f2 = thresha.PRF(b'k1' * 8, 2**64), thresha.PRF(b'k2' * 8, 2**64)
    if f1(b'x', 4) == f2(b'x', 4) or f1(b'x', 4) == f1(b'y', 4):
        rec.violation('PRF output does not depend on key or input', {'mechanism': 'prf-constant'}, {}, case=['dependence'])
    # determinism across processes with different hash seeds
    mine = digest_run(shard['seed'], shard['np'])
    code = ("import sys; sys.path.insert(0, %r); from vlib import env; env.prepare(numpy=%r); "
            "from checks import c17; print(c17.digest_run(%d, %r))" % (env.ROOT, shard['np'], shard['seed'], shard['np']))
    for hs in ('1', '12345'):
        e = dict(os.environ, PYTHONHASHSEED=hs, PYTHONDONTWRITEBYTECODE='1')
        p = subprocess.run([sys.executable, '-c', code], env=e, stdout=subprocess.PIPE, stderr=subprocess.PIPE, text=True, timeout=300, cwd=env.ROOT)
        theirs = p.stdout.strip().splitlines()[-1] if p.stdout.strip() else ''
        if p.returncode != 0 or len(theirs) != 64:
            rec.inconclusive_because(f'child process failed: {p.stderr[-300:]}')
        elif theirs != mine:
            rec.violation(f'PRF battery digest differs in a fresh process with PYTHONHASHSEED={hs}', {'mechanism': 'prf-cross-process'}, {'mine': mine, 'theirs': theirs}, case=['xproc', hs])
        rec.count('cross_process_digests')
