"""C19 — parties outside the receivers learn nothing from an output."""
import sys
import itertools
import random

PROPERTY = 'C19'
ENGINE = 'SIM'
LEVEL = 'exploration'
TECHNIQUE = 'runtime route monitor: every _send_message of every party is recorded with its destination, the program phase of the sender and the sending function (caller frame); the operation under test is bracketed by barriers so that frames are attributable to it'
RULE = ('case = (configuration, secure type or transfer, receiver subset / graph, threshold); non-trivial = at least one party is not a receiver; '
        'oracle: no frame of the operation reaches a non-receiver (ints, fixed-point, field, group elements, transfer); for secure floats every frame to a non-receiver '
        'is a share dealt by _distribute/_reshare (fresh polynomial, see C14) and changes when only the dealer randomness changes')
ASSUMPTIONS = ['a party learns only from what it receives; frames are attributed to the operation by the sender\'s program phase (the sender passed a barrier before entering it)',
               'SIM transport assumptions as in C08']
REQUIRE = {'any': {'operations': 300, 'nonreceiver_parties_checked': 400, 'float_subset_outputs': 10}}
LEVEL_TEXT = 'exploration: all receiver subsets for m <= 5 (sampled for 6,7), thresholds t..2t, types int/fxp/fld/grp/flt, transfer graphs, configurations with and without PRSS'
LEVEL_NOTE = 'trusted: vlib/sim.py; attribution by caller frame of Runtime._send_message'
TIMEOUT = {'quick': 1500, 'thorough': 10000}

from vlib.runner import config_name
Q_CONFIGS = [(2, 0, False), (3, 1, False), (3, 1, True), (4, 1, False), (5, 2, False), (5, 2, True), (7, 3, False)]


def shards(tier, seed):
    from vlib.runner import ALL_CONFIGS
    cfgs = Q_CONFIGS if tier == 'quick' else [c for c in ALL_CONFIGS if c[0] > 1]
    return [{'name': config_name(c), 'cfg': list(c), 'budget': (200 if c[0] <= 5 else 70) if tier == 'quick' else 600} for c in cfgs]


def run(shard, rec):
    from vlib import env
    env.prepare()
    from vlib import sim
    ns = sim.install()
    from mpyc import fingroups
    m, t, no_prss = shard['cfg']
    rng = random.Random(f"c19/{shard['seed']}/{shard['name']}")
    G = fingroups.QuadraticResidues(l=24)
    Runtime = ns.rtmod.Runtime
    orig_send = Runtime._send_message
    log = []
    phase = {}

    def send(self, peer_pid, data):
        f = sys._getframe(1)
        log.append((self.pid, peer_pid, phase.get(self.pid), f.f_code.co_qualname, bytes(data)))
        return orig_send(self, peer_pid, data)
    Runtime._send_message = send

    subsets = [list(s) for k in range(0, m + 1) for s in itertools.combinations(range(m), k)]
    cases = []
    for tp in ('int', 'fxp', 'fld', 'grp', 'flt', 'intlist'):
        for R in (subsets if m <= 5 else rng.sample(subsets, 20)):
            if len(R) == m and rng.random() < 0.7:
                continue
            for thr in [None] + list(range(t, min(2 * t, m - 1) + 1)):
                cases.append({'kind': 'output', 'type': tp, 'R': R, 'thr': thr})
    for _ in range(60):
        arcs = list(dict.fromkeys((rng.randrange(m), rng.randrange(m)) for _ in range(rng.randint(0, 2 * m))))
        cases.append({'kind': 'graph', 'arcs': [list(a) for a in arcs], 'form': rng.choice(['arcs', 'dict'])})
        S = sorted(rng.sample(range(m), rng.randint(1, m)))
        Rr = sorted(rng.sample(range(m), rng.randint(0, m)))
        cases.append({'kind': 'transfer', 'S': S, 'R': Rr})
    rng.shuffle(cases)
    flt_first = [c for c in cases if c.get('type') == 'flt' and 0 < len(c['R']) < m][:max(4, shard['budget'] // 8)]
    cases = flt_first + [c for c in cases if c not in flt_first][:shard['budget']]

    late = {}

    def run_once(op, sseed, value):
        log.clear()
        phase.clear()
        late.clear()

        async def program(mpc, pid):
            types = {'int': mpc.SecInt(16), 'fxp': mpc.SecFxp(16, 8), 'fld': mpc.SecFld(101), 'flt': mpc.SecFlt(16), 'grp': mpc.SecGrp(G)}

            def mk(tp, v):
                if tp == 'grp':
                    return types['grp'](G.generator ^ (v % 1000))
                if tp == 'fld':
                    return types['fld'](v % 101)
                if tp == 'fxp':
                    return types['fxp'](v / 4, integral=False)       # same flag at every party, whatever its local placeholder
                if tp == 'flt':
                    return types['flt'](float(v) * 1.5)
                return types['int'](v)
            phase[pid] = 'setup'
            r = None
            if op['kind'] == 'output':
                tp = op['type']
                owner = 0
                if tp == 'intlist':
                    x = mpc.input([mk('int', value if pid == owner else 0), mk('int', value + 1 if pid == owner else 0)], senders=owner)
                    x = [x[0] * x[1], x[0]]
                else:
                    x = mpc.input(mk(tp, value if pid == owner else 0), senders=owner)
                    if tp in ('int', 'fxp', 'fld'):
                        x = x * x + x          # a computed value, not just a dealt one
                await mpc.gather(x) if tp not in ('flt', 'grp') else None
                await mpc.barrier()
                await mpc.transfer(pid)        # everybody's setup traffic is out and consumed
                await mpc.barrier()
                phase[pid] = 'op'
                kw = {} if op['thr'] is None else {'threshold': op['thr']}
                r = await mpc.output(x, receivers=op['R'], **kw)
                await mpc.barrier()
                phase[pid] = 'after'
                if tp in ('int', 'fxp', 'fld') and len(op['R']) < len(mpc.parties):
                    # the receivers are those named at the call: the caller reuses its list object afterwards while the value is still being computed
                    Rl = list(op['R'])
                    y = (x * x + 1) * x                      # pending at the time of the call
                    fut = mpc.output(y, receivers=Rl, **kw)
                    Rl.append(min(p_ for p_ in range(len(mpc.parties)) if p_ not in op['R']))
                    late[pid] = await fut
                    await mpc.barrier()
            else:
                await mpc.transfer(pid)
                await mpc.barrier()
                phase[pid] = 'op'
                if op['kind'] == 'graph':
                    arcs = [tuple(a) for a in op['arcs']]
                    g = arcs
                    if op['form'] == 'dict':
                        g = {}
                        for a, b in arcs:
                            g.setdefault(a, []).append(b)
                    r = await mpc.transfer(('secret', pid, value), sender_receivers=g)
                else:
                    r = await mpc.transfer(('secret', pid, value), senders=op['S'], receivers=op['R'])
                await mpc.barrier()
                phase[pid] = 'after'
            return r
        w = sim.World(m, t, no_prss, seed=sseed, policy=rng.choice(sim.POLICIES), history='auto').run(program)
        return w, [e for e in log if e[2] == 'op']

    for ci, op in enumerate(cases):
        sseed = rng.randrange(1 << 30)
        case = [shard['name'], ci, op]
        if not rec.wants(case):
            continue
        value = rng.randint(1, 30)
        w, frames = run_once(op, sseed, value)
        rec.count('operations')
        if w.ok_results() is None:
            rec.note_side(f'{shard["name"]} {op}: run did not complete ({w.status}, {w.error_summaries()[:1]})')
            rec.count('runs_not_completed')
            rec.case(case, nontrivial=False)
            continue
        if op['kind'] == 'output':
            R = set(op['R'])
            allowed = lambda src, dst: dst in R
            for p_, v_ in sorted(late.items()):
                rec.count('late_receiver_list_mutations')
                if p_ not in R and v_ is not None:
                    rec.violation(f'{shard["name"]} {op}: party {p_} was not among the receivers named in the call (the caller appended it to its list afterwards) but obtained {v_}',
                                  {'kind': 'output', 'type': op.get('type'), 'mechanism': 'receiver-list-aliased'}, {'case': case}, case=case)
        elif op['kind'] == 'graph':
            arcs = {tuple(a) for a in op['arcs']}
            allowed = lambda src, dst: (src, dst) in arcs
        else:
            allowed = lambda src, dst: src in op['S'] and dst in op['R']
        tp = op.get('type')
        nonrec = [p for p in range(m) if not any(allowed(s, p) for s in range(m))] if op['kind'] != 'output' else [p for p in range(m) if p not in R]
        rec.count('nonreceiver_parties_checked', len(nonrec))
        feats = {'kind': op['kind'], 'type': tp}
        if tp == 'flt' and 0 < len(op['R']) < m:
            rec.count('float_subset_outputs')
            bad = [f for f in frames if not allowed(f[0], f[1]) and f[3] not in ('Runtime._distribute', 'Runtime._reshare')]
            for f in bad[:2]:
                rec.violation(f'{shard["name"]} {op}: secure-float output sends a frame to non-receiver {f[1]} from {f[3]} (party {f[0]}, {len(f[4])} bytes): not a dealt share',
                              dict(feats, mechanism='float-nonreceiver-frame-not-a-dealing', sender_fn=f[3]), {'op': op, 'sched_seed': sseed}, case=case)
            # freshness: same value, other dealer randomness -> the shares seen by a non-receiver change
            view1 = sorted((f[0], f[1], f[4]) for f in frames if f[1] in nonrec)
            view2 = None
            if t > 0:          # with threshold 0 nothing is secret-shared (shares are the values): freshness is not applicable
                w2, frames2 = run_once(op, sseed + 1, value)
                view2 = sorted((f[0], f[1], f[4]) for f in frames2 if f[1] in nonrec)
            if view1 and view1 == view2:
                rec.violation(f'{shard["name"]} {op}: frames to non-receivers are identical under different dealer randomness (not fresh shares)',
                              dict(feats, mechanism='float-nonreceiver-frames-deterministic'), {'op': op}, case=case)
            rec.count('float_frames_to_nonreceivers', len(view1))
        else:
            leaks = [f for f in frames if not allowed(f[0], f[1])]
            for f in leaks[:2]:
                rec.violation(f'{shard["name"]} {op}: party {f[0]} sent a {len(f[4])}-byte frame to party {f[1]}, which is not a receiver (sent from {f[3]})',
                              dict(feats, mechanism='frame-to-nonreceiver', sender_fn=f[3]), {'op': op, 'sched_seed': sseed}, case=case)
        # results: non-receivers obtain nothing
        res = w.ok_results()
        for p in nonrec:
            r = res[p]
            if not (r is None or r == [] or (isinstance(r, list) and all(a is None for a in r))):
                rec.violation(f'{shard["name"]} {op}: non-receiver {p} obtained {str(r)[:80]}', dict(feats, mechanism='nonreceiver-got-result'), {'op': op}, case=case)
        rec.case(case, nontrivial=bool(nonrec), sample={'config': shard['name'], 'op': op, 'frames_in_op': len(frames), 'non_receivers': nonrec} if ci < 2 else None)
    Runtime._send_message = orig_send
