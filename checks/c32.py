"""C32 — mpctools.reduce / accumulate agree with functools / itertools."""
import random
import functools
import itertools
import math

PROPERTY = 'C32'
ENGINE = 'UNIT'
LEVEL = 'exploration'
TECHNIQUE = 'runtime oracle monitor: real mpctools.reduce/accumulate driven with associative non-commutative functions whose values carry their own application depth; results compared with functools.reduce / itertools.accumulate, measured depth compared with the documented logarithmic bounds'
RULE = ('case = (function, length 0..N, initial or not, method); non-trivial = length >= 3; distinct by that tuple; depth oracle: reduce and Sklansky <= ceil(log2 n), Brent-Kung <= 2 ceil(log2 n)')
EXHAUSTIVE = 'all lengths 0..70 (quick) / 0..300 (thorough) x 4 associative non-commutative operations x initial/None-initial/no initial x {Sklansky, Brent-Kung, default heuristic under both no_prss settings}'
ASSUMPTIONS = ['functools.reduce and itertools.accumulate are the specification']
REQUIRE = {'any': {'reduce_checked': 500, 'accumulate_checked': 1500, 'depth_checked': 1500}}
LEVEL_TEXT = 'exploration, complete over lengths and option combinations in the bounded grid'
LEVEL_NOTE = 'trusted: functools/itertools'


def shards(tier, seed):
    N = 70 if tier == 'quick' else 600
    return [{'name': f'f{k}', 'f': k, 'N': N} for k in range(4)]


class V:
    """value with the depth of function applications that produced it"""
    __slots__ = ('v', 'd')

    def __init__(self, v, d=0):
        self.v, self.d = v, d


def run(shard, rec):
    from vlib import env
    env.prepare()
    from mpyc import mpctools
    from mpyc.runtime import mpc
    k = shard['f']
    rng = random.Random(f"c32/{shard['seed']}/{k}")
    # associative, non-commutative operations
    if k == 0:
        plain = lambda a, b: a + b                       # string concatenation
        item = lambda i: chr(97 + i % 26) + str(i)
    elif k == 1:
        plain = lambda a, b: (a[0] * b[0] + a[1] * b[2], a[0] * b[1] + a[1] * b[3], a[2] * b[0] + a[3] * b[2], a[2] * b[1] + a[3] * b[3])   # 2x2 matrices
        item = lambda i: (1, i % 5, (i * 7) % 3, 1)
    elif k == 2:
        plain = lambda a, b: a + b                       # tuple concatenation
        item = lambda i: (i,)
    else:
        plain = lambda a, b: (a[0] * b[0] % 1000003, (a[1] * b[0] + b[1]) % 1000003)     # composition of affine maps
        item = lambda i: (i % 17 + 2, i)

    calls = {'n': 0}

    def f(a, b):
        calls['n'] += 1
        return V(plain(a.v, b.v), max(a.d, b.d) + 1)
    for n in range(0, shard['N'] + 1):
        xs = [item(i) for i in range(n)]
        for init_kind in ('none', 'value', 'None'):
            if init_kind == 'None' and k != 2:
                continue
            # ---- reduce
            case = ['reduce', k, n, init_kind]
            if rec.wants(case):
                args_ref = (plain, xs) if init_kind == 'none' else (plain, xs, item(999))
                if init_kind == 'None':
                    # initial=None must be treated as a value placed in front: use a function that tolerates None on the left
                    g = lambda a, b: b if a is None else (a if b is None else a + b)
                    try:
                        exp = functools.reduce(g, xs, None)
                        got = mpctools.reduce(g, xs, None)
                        rec.count('reduce_checked')
                        if got != exp:
                            rec.violation(f'reduce with initial=None, n={n}: {got!r} != {exp!r}', {'fn': 'reduce', 'mechanism': 'wrong-result'}, {'case': case}, case=case)
                    except Exception as e:
                        rec.violation(f'reduce with initial=None, n={n}: raised {type(e).__name__}', {'fn': 'reduce', 'mechanism': 'exception'}, {'case': case}, case=case)
                else:
                    try:
                        exp = functools.reduce(*args_ref)
                        exp_err = None
                    except TypeError as e:
                        exp, exp_err = None, e
                    vx = [V(x) for x in xs]
                    try:
                        got = mpctools.reduce(f, vx) if init_kind == 'none' else mpctools.reduce(f, vx, V(item(999)))
                        err = None
                    except TypeError as e:
                        got, err = None, e
                    except Exception as e:
                        got, err = None, e
                    rec.count('reduce_checked')
                    if (exp_err is None) != (err is None) or (err is not None and not isinstance(err, TypeError)):
                        rec.violation(f'reduce n={n} init={init_kind}: functools {"raises TypeError" if exp_err else "returns"}, mpctools {"raises " + type(err).__name__ if err else "returns"}',
                                      {'fn': 'reduce', 'mechanism': 'exception-mismatch'}, {'case': case}, case=case)
                    elif err is None:
                        if got.v != exp:
                            rec.violation(f'reduce n={n} init={init_kind}: result differs from functools.reduce', {'fn': 'reduce', 'mechanism': 'wrong-result'}, {'case': case}, case=case)
                        # the items may be temporaries that only the iterable holds (generator, map, iterator over a list nobody else keeps), as for functools.reduce
                        for hold in ('generator', 'map', 'iter-of-dropped-list', 'tuple'):
                            src = {'generator': lambda: (V(x) for x in xs), 'map': lambda: map(V, xs), 'iter-of-dropped-list': lambda: iter([V(x) for x in xs]), 'tuple': lambda: tuple(V(x) for x in xs)}[hold]
                            try:
                                got_h = mpctools.reduce(f, src()) if init_kind == 'none' else mpctools.reduce(f, src(), V(item(999)))
                            except Exception as e:
                                rec.violation(f'reduce n={n} init={init_kind} over a {hold}: raised {type(e).__name__}: {e}', {'fn': 'reduce', 'mechanism': 'exception'}, {'case': case}, case=case)
                                continue
                            rec.count('reduce_over_temporaries')
                            if got_h.v != exp:
                                rec.violation(f'reduce n={n} init={init_kind} over a {hold}: result differs from functools.reduce', {'fn': 'reduce', 'mechanism': 'wrong-result', 'holding': hold}, {'case': case}, case=case)
                        nn = n + (init_kind != 'none')
                        bound = math.ceil(math.log2(nn)) if nn > 1 else 0
                        rec.count('depth_checked')
                        if got.d > bound:
                            rec.violation(f'reduce n={nn}: depth of applications {got.d} > ceil(log2 n) = {bound}', {'fn': 'reduce', 'mechanism': 'depth'}, {'case': case}, case=case)
                rec.case(case, nontrivial=n >= 3, sample={'fn': 'reduce', 'op': k, 'n': n, 'initial': init_kind} if n == 13 and init_kind == 'none' else None)
            # ---- accumulate
            for method in (None, 'Sklansky', 'Brent-Kung'):
                for no_prss in ((False, True) if method is None else (False,)):
                    case = ['accumulate', k, n, init_kind, method, no_prss]
                    if not rec.wants(case):
                        continue
                    if init_kind == 'None':
                        g = lambda a, b: b if a is None else (a if b is None else a + b)
                        exp = list(itertools.accumulate([None] + xs, g))      # mpctools documents that an initial value may be None (itertools uses None for 'absent')
                        try:
                            got = list(mpctools.accumulate(xs, g, initial=None, method=method))
                        except Exception as e:
                            rec.violation(f'accumulate initial=None n={n} {method}: raised {type(e).__name__}: {e}', {'fn': 'accumulate', 'mechanism': 'exception'}, {'case': case}, case=case)
                            continue
                        rec.count('accumulate_checked')
                        if got != exp:
                            rec.violation(f'accumulate initial=None n={n} {method}: differs from itertools', {'fn': 'accumulate', 'mechanism': 'wrong-result'}, {'case': case}, case=case)
                        rec.case(case, nontrivial=n >= 3)
                        continue
                    exp = list(itertools.accumulate(xs, plain)) if init_kind == 'none' else list(itertools.accumulate(xs, plain, initial=item(999)))
                    vx = [V(x) for x in xs]
                    old = mpc.options.no_prss
                    mpc.options.no_prss = no_prss
                    try:
                        calls['n'] = 0
                        kw = {} if init_kind == 'none' else {'initial': V(item(999))}
                        got = list(mpctools.accumulate(vx, f, method=method, **kw))
                    except Exception as e:
                        rec.violation(f'accumulate n={n} init={init_kind} method={method}: raised {type(e).__name__}: {e}', {'fn': 'accumulate', 'mechanism': 'exception'}, {'case': case}, case=case)
                        continue
                    finally:
                        mpc.options.no_prss = old
                    rec.count('accumulate_checked')
                    try:
                        got_g = list(mpctools.accumulate((V(x) for x in xs), f, method=method, **({} if init_kind == 'none' else {'initial': V(item(999))})))
                        rec.count('accumulate_over_temporaries')
                        if [g_.v for g_ in got_g] != exp:
                            rec.violation(f'accumulate n={n} init={init_kind} method={method} over a generator: differs from itertools.accumulate', {'fn': 'accumulate', 'mechanism': 'wrong-result', 'holding': 'generator'}, {'case': case}, case=case)
                    except Exception as e:
                        rec.violation(f'accumulate n={n} init={init_kind} method={method} over a generator: raised {type(e).__name__}: {e}', {'fn': 'accumulate', 'mechanism': 'exception'}, {'case': case}, case=case)
                    if [g_.v for g_ in got] != exp:
                        rec.violation(f'accumulate n={n} init={init_kind} method={method}: differs from itertools.accumulate', {'fn': 'accumulate', 'mechanism': 'wrong-result'}, {'case': case}, case=case)
                    nn = len(exp)
                    if nn > 1:
                        lg = math.ceil(math.log2(nn))
                        eff = method or ('Brent-Kung' if no_prss and nn >= 32 else 'Sklansky')
                        bound = lg if eff == 'Sklansky' else 2 * lg
                        depth = max(g_.d for g_ in got)
                        rec.count('depth_checked')
                        if depth > bound:
                            rec.violation(f'accumulate n={nn} method={eff}: depth {depth} > {bound}', {'fn': 'accumulate', 'mechanism': 'depth'}, {'case': case}, case=case)
                    rec.case(case, nontrivial=n >= 3, sample={'fn': 'accumulate', 'op': k, 'n': n, 'method': method, 'calls_of_f': calls['n']} if n == 33 and init_kind == 'none' else None)
