"""C11 — shares of every secure value form a consistent degree-t sharing."""
import random
import asyncio

PROPERTY = 'C11'
ENGINE = 'SIM'
LEVEL = 'exploration'
TECHNIQUE = 'omniscient share monitor: all m parties\' shares of every program-visible secure value (gathered at quiescence) and of every internal resharing/input/random-bit result (hooked by program-counter key) are interpolated by an independent oracle: degree <= t and constant term = the value'
RULE = ('case = (configuration with t >= 1 and m > t+1, program, schedule); per sharing: m points; non-trivial = m >= t+2 (the degree test can fail) ; '
        'distinct by (config, program, node or call key)')
ASSUMPTIONS = ['outputs recombine only t+1 shares; the monitor uses all m', 'oracle: Lagrange interpolation over GF(p) with Python ints']
REQUIRE = {'any': {'node_sharings_checked': 2000, 'reshare_calls_checked': 1000, 'input_sharings_checked': 300, 'random_bit_sharings_checked': 200}}
LEVEL_TEXT = 'exploration: secure integer, fixed-point and field programs in all configurations with t >= 1 and m > t+1 (quick: 8 of them), PRSS on/off'
LEVEL_NOTE = 'trusted: vlib/oracles/ref.py interpolation; vlib/sim.py'
TIMEOUT = {'quick': 1500, 'thorough': 12000}

from vlib.runner import config_name
Q_CONFIGS = [(3, 1, False), (3, 1, True), (4, 1, False), (5, 1, True), (5, 1, False), (5, 2, False), (5, 2, True), (6, 2, False), (7, 3, True), (7, 2, False)]


def shards(tier, seed):
    from vlib.runner import ALL_CONFIGS
    cfgs = Q_CONFIGS if tier == 'quick' else [c for c in ALL_CONFIGS if c[1] >= 1 and c[0] >= c[1] + 2]
    return [{'name': config_name(c), 'cfg': list(c), 'programs': {3: 80, 4: 60, 5: 48, 6: 24, 7: 16}[c[0]] * (1 if tier == 'quick' else 8)} for c in cfgs]


def interp_degree_secret(points, p):
    """points: [(x, y)] ints mod p -> (degree, constant term) of the unique interpolating polynomial"""
    n = len(points)
    coeffs = [0] * n
    for i, (xi, yi) in enumerate(points):
        basis = [1]
        den = 1
        for j, (xj, _) in enumerate(points):
            if i == j:
                continue
            nb = [0] * (len(basis) + 1)
            for k, c in enumerate(basis):
                nb[k + 1] = (nb[k + 1] + c) % p
                nb[k] = (nb[k] - xj * c) % p
            basis = nb
            den = den * (xi - xj) % p
        s = yi * pow(den, -1, p) % p
        for k, c in enumerate(basis):
            coeffs[k] = (coeffs[k] + c * s) % p
    d = n - 1
    while d >= 0 and coeffs[d] == 0:
        d -= 1
    return d, coeffs[0]


def flatten(x, out):
    """Collect field-element shares from nested results of SecureObjects / Futures / field elements as (order, int) snapshots.
    Values are copied when they become available (done-callback registered right after the call, i.e. before the
    awaiting caller's own callback), because callers legitimately shift the returned field elements in place later."""
    from mpyc import finfields
    from mpyc.asyncoro import SecureObject
    if isinstance(x, SecureObject):
        return flatten(x.share, out)
    if isinstance(x, asyncio.Future):
        slot = []
        out.append(('deferred', slot))

        def done(f):
            if not f.cancelled() and f.exception() is None:
                sub = []
                flatten(f.result(), sub)
                slot.extend(sub)
        if x.done():
            done(x)
        else:
            x.add_done_callback(done)
        return
    if isinstance(x, (list, tuple)):
        for a in x:
            flatten(a, out)
        return
    if isinstance(x, finfields.FiniteFieldElement):
        out.append((type(x).order, int(x.value) if type(x).ext_deg == 1 else None))
        return
    out.append(None)


def resolve(out):
    """expand deferred slots (after the run)"""
    r = []
    for o in out:
        if isinstance(o, tuple) and o and o[0] == 'deferred':
            r.extend(resolve(o[1]) if o[1] else [None])
        else:
            r.append(o)
    return r


def run(shard, rec):
    from vlib import env
    env.prepare()
    from vlib import sim, progs, fxprogs
    ns = sim.install()
    m, t, no_prss = shard['cfg']
    rng = random.Random(f"c11/{shard['seed']}/{shard['name']}")
    Runtime = ns.rtmod.Runtime
    hooks = {}
    calls = []          # (pid, fn, pc key, seq, args, result)

    def wrap(name):
        orig = getattr(Runtime, name)
        hooks[name] = orig

        def wrapper(self, *a, **kw):
            key = (tuple(self._program_counter), name)
            ins = []
            if name == '_reshare':
                flatten(a[0], ins)
            r = orig(self, *a, **kw)
            outs = []
            flatten(r, outs)
            calls.append((self.pid, name, key, ins, outs))
            return r
        setattr(Runtime, name, wrapper)
    for name in ('_reshare', 'input', 'random_bits'):
        wrap(name)

    def check_sharing(shares, what, feats, wit, case, expect=None, maxdeg=None, counter=None):
        """shares: list over parties of (order, value)"""
        if any(s is None or s[1] is None for s in shares):
            rec.count('sharings_skipped_unresolved')
            return None
        p = shares[0][0]
        if any(s[0] != p for s in shares):
            rec.violation(f'{what}: parties hold shares in different fields', dict(feats, mechanism='field-mismatch'), wit, case=case)
            return None
        deg, secret = interp_degree_secret([(i + 1, s[1]) for i, s in enumerate(shares)], p)
        if counter:
            rec.count(counter)
        md = t if maxdeg is None else maxdeg
        if shard.get('full_degree') and counter == 'random_bit_sharings_checked' and deg < t and p > 2 ** 20:
            # (used by C18) a random mask shared with degree below the threshold can be reconstructed by fewer than t+1 parties
            rec.violation(f'{what}: the random value is shared with degree {deg} < t={t}: {deg + 1} parties can reconstruct it', dict(feats, mechanism='random-mask-sharing-below-threshold'), wit, case=case)
            return None
        if deg > md:
            rec.violation(f'{what}: the {m} shares lie on a polynomial of degree {deg} > {md}', dict(feats, mechanism='degree-too-high'), wit, case=case)
            return None
        if expect is not None and secret != expect % p:
            rec.violation(f'{what}: constant term {secret if secret < p // 2 else secret - p} differs from the value {expect}', dict(feats, mechanism='wrong-secret'), wit, case=case)
        return secret

    for pi in range(shard['programs']):
        kind = ('int', 'fxp', 'fxp', 'fld')[pi % 4]
        sseed = rng.randrange(1 << 30)
        policy = rng.choice(sim.POLICIES)
        case = [shard['name'], pi, kind, policy, sseed]
        calls.clear()
        if kind == 'int':
            l = rng.choice([8, 16, 32])
            spec = progs.gen(rng, m, l=l, ops=[o for o in progs.ALL if not o.startswith(('gcd', 'lcm', 'inverse')) and o not in progs.PUBLIC_OPS], n_steps=(3, 7), features=False)
            ref = progs.ref_eval(spec)

            async def program(mpc, pid, spec=spec):
                secint = mpc.SecInt(spec['l'])

                @mpc.coroutine
                async def nested(x, y, z):
                    await mpc.returnType(secint)
                    return x * y + z
                nodes = [mpc.input(secint(v if pid == s else 0), senders=s) for s, v in spec['inputs']]
                for op, args, c in spec['steps']:
                    nodes.append(progs.apply_op(mpc, secint, op, [nodes[i] for i in args], c, nested))
                sh = await mpc.gather(nodes)
                await mpc.barrier()
                return [(type(a).order, int(a.value)) for a in sh]
            scale = 1
        elif kind == 'fxp':
            spec = fxprogs.gen(rng, m, l=16, f=8, ops=fxprogs.CHEAP, n_steps=(4, 9), features=False)
            ref = None

            async def program(mpc, pid, spec=spec):
                secfxp = mpc.SecFxp(spec['l'], spec['f'])
                nodes = [mpc.input(secfxp(v if pid == s else 0.0, integral=integral), senders=s) for s, v, integral in spec['inputs']]
                for op, args, c in spec['steps']:
                    nodes.append(fxprogs.apply_op(mpc, secfxp, op, [nodes[i] for i in args], c))
                sh = await mpc.gather(nodes)
                opened = await mpc.output(nodes, raw=True)
                await mpc.barrier()
                return [(type(a).order, int(a.value)) for a in sh], [int(a) for a in opened]
        else:
            q = rng.choice([101, 257, 2**31 - 1, 11, 7, 65537, 2**64 - 59, 13])          # primes = 1 and = 3 mod 4 (random bits use a square root in the former)
            if q <= m:
                q = 101
            vals = [rng.randrange(1, q), rng.randrange(q), rng.randrange(1, q)]
            spec = {'q': q, 'vals': vals}
            ref = [vals[0], vals[1], vals[2], (vals[0] * vals[1]) % q, (vals[0] * vals[1] + vals[2]) % q, pow(vals[2], 3, q), int(vals[0] == vals[1]),
                   pow(vals[0], -1, q), vals[1] * pow(vals[2], -1, q) % q, pow(vals[2], -2, q)]

            async def program(mpc, pid, spec=spec):
                secfld = mpc.SecFld(spec['q'])
                xs = [mpc.input(secfld(v if pid == i % len(mpc.parties) else 0), senders=i % len(mpc.parties)) for i, v in enumerate(spec['vals'])]
                nodes = xs + [xs[0] * xs[1], xs[0] * xs[1] + xs[2], xs[2] ** 3, xs[0] == xs[1], 1 / xs[0], xs[1] / xs[2], xs[2] ** -2]
                rb = mpc.random_bits(secfld, 3)              # observed through the hook on random_bits: consistent degree-t sharings of 0/1 at all parties
                await mpc.gather(rb)
                sh = await mpc.gather(nodes)
                await mpc.barrier()
                return [(type(a).order, int(a.value)) for a in sh]
        if not rec.wants(case):
            continue
        w = sim.World(m, t, no_prss, seed=sseed, policy=policy, history=tuple(shard['history']) if shard.get('history') else 'auto', on_observed=calls.clear).run(program, cpu_seconds=120)      # these worlds take well under a second of CPU on the unchanged tree
        rec.count('programs_run')
        res = w.ok_results()
        what0 = f'{shard["name"]} {kind} program {pi}'
        wit = {'spec': spec, 'policy': policy, 'sched_seed': sseed}
        if res is None:
            rec.violation(f'{what0}: run did not complete {w.status} {[r for r in w.results() if r[0] == "EXC"][:1]} {w.error_summaries()[:1]}', {'mechanism': 'no-completion', 'kind': kind}, wit, case=case)
            continue
        # (a) program-visible nodes
        if kind == 'fxp':
            node_sh = [r[0] for r in res]
            opened = res[0][1]
            refvals = opened
            # the value a sharing must carry: judged by the local fixed-point oracle on the opened values

            def on_v(idx, op, clause, text, extra):
                rec.violation(f'{what0} node {idx}: sharing carries a wrong value: {text}', {'where': 'node', 'op': op, 'kind': kind, 'mechanism': 'wrong-secret'}, wit, case=case)
            fxprogs.judge(spec, opened, [None] * len(opened), on_v)
        else:
            node_sh = res
            refvals = ref
        nn = len(node_sh[0])
        for k in range(nn):
            shares = [node_sh[pid][k] for pid in range(m)]
            if kind == 'int':
                opname = spec['steps'][k - len(spec['inputs'])][0] if k >= len(spec['inputs']) else 'input'
            elif kind == 'fxp':
                opname = spec['steps'][k - len(spec['inputs'])][0] if k >= len(spec['inputs']) else 'input'
            else:
                opname = ['input', 'input', 'input', 'mul', 'muladd', 'pow', 'eq', 'reciprocal', 'div', 'pow-neg'][k]
            check_sharing(shares, f'{what0} node {k} ({opname})', {'where': 'node', 'op': opname, 'kind': kind}, wit, case, expect=refvals[k], counter='node_sharings_checked')
        # (b) internal calls, matched across parties by (program counter, function, occurrence)
        per = {}
        for pid, name, key, a, r in calls:
            per.setdefault((name, key), {}).setdefault(pid, []).append((a, r))
        for (name, key), byp in per.items():
            if len(byp) != m or len({len(v) for v in byp.values()}) != 1:
                continue
            for occ in range(len(byp[0])):
                outs = []
                ins = []
                for pid in range(m):
                    a, r = byp[pid][occ]
                    outs.append(resolve(r))
                    if name == '_reshare':
                        ins.append(resolve(a))
                if len({len(o) for o in outs}) != 1:
                    continue
                for h in range(len(outs[0])):
                    shares = [outs[pid][h] for pid in range(m)]
                    feats = {'where': name, 'kind': kind}
                    if name == '_reshare':
                        sec_out = check_sharing(shares, f'{what0} {name} at pc {key[0]} element {h}', feats, wit, case, counter='reshare_calls_checked')
                        ishares = [ins[pid][h] if h < len(ins[pid]) else None for pid in range(m)]
                        if sec_out is not None and all(s is not None and s[1] is not None for s in ishares) and m >= 2 * t + 1:
                            p = ishares[0][0]
                            deg_in, sec_in = interp_degree_secret([(i + 1, s[1]) for i, s in enumerate(ishares)], p)
                            if deg_in <= 2 * t and sec_in != sec_out:
                                rec.violation(f'{what0} {name} at pc {key[0]} element {h}: resharing changed the secret ({sec_in} -> {sec_out})', dict(feats, mechanism='reshare-changes-secret'), wit, case=case)
                    elif name == 'input':
                        check_sharing(shares, f'{what0} {name} at pc {key[0]} element {h}', feats, wit, case, counter='input_sharings_checked')
                    else:
                        sec = check_sharing(shares, f'{what0} {name} at pc {key[0]} element {h}', feats, wit, case, counter='random_bit_sharings_checked')
                        if sec is not None:
                            p = shares[0][0]
                            f = 0
                            vals_ok = sec in (0, 1) or any(sec == (1 << ff) % p for ff in (4, 8, 16, 32)) or sec == p - 1
                            if not vals_ok:
                                rec.violation(f'{what0} random_bits element {h}: shared value {sec} is not a bit', dict(feats, mechanism='random-bit-not-a-bit'), wit, case=case)
        rec.case(case, nontrivial=m >= t + 2, sample={'config': shard['name'], 'kind': kind, 'nodes': nn, 'internal_calls': len(calls),
                                                     'example_shares_node0': [s[1] for s in [node_sh[pid][0] for pid in range(m)]]} if pi < 2 else None)
    for name, orig in hooks.items():
        setattr(Runtime, name, orig)
