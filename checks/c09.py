"""C09 — every message is labelled uniquely and consumed exactly once."""
import random

PROPERTY = 'C09'
ENGINE = 'SIM'
LEVEL = 'exploration'
TECHNIQUE = 'offline checker over recorded wire histories: every byte on every directed connection parsed by an independent frame parser, every receive() call and payload hand-over recorded, buffers inspected after shutdown'
RULE = ('case = (configuration, program, schedule); history = per directed connection the sequence of (label, payload) frames sent, the multiset of receive(label) calls and the payloads handed over; '
        'non-trivial = the run exchanged >= 1 frame; distinct by (config, program, schedule hash)')
ASSUMPTIONS = ['the independent parser uses the documented frame layout <q label><I length><payload> and an independently computed handshake length',
               'SIM transport assumptions as in C08']
REQUIRE = {'any': {'runs': 60, 'frames_parsed': 5000, 'connections_checked': 200, 'receives_recorded': 5000}}
LEVEL_TEXT = ('exploration: protocol-heavy micro-programs (conversions, bit decomposition, secure floats, seclists, groups, random bits, statistics) and random DAG programs '
              'in many configurations and schedules; the checker sees all traffic of all parties')
LEVEL_NOTE = 'trusted: vlib/sim.py transport log and independent frame parser'
TIMEOUT = {'quick': 1500, 'thorough': 10000}

from vlib.runner import config_name

Q_CONFIGS = [(2, 0, False), (3, 1, False), (3, 1, True), (4, 1, False), (5, 2, False), (5, 2, True), (7, 3, False)]


def shards(tier, seed):
    from vlib.runner import ALL_CONFIGS
    cfgs = Q_CONFIGS if tier == 'quick' else [c for c in ALL_CONFIGS if c[0] > 1]
    out = []
    for c in cfgs:
        out.append({'name': 'dag-' + config_name(c), 'kind': 'dag', 'cfg': list(c), 'programs': (10 if c[0] <= 5 else 4) if tier == 'quick' else 40})
        if c[0] <= 5 or tier == 'thorough':
            out.append({'name': 'micro-' + config_name(c), 'kind': 'micro', 'cfg': list(c), 'reps': 1 if tier == 'quick' else 4})
    return out


def micro_programs():
    """protocol-heavy micro programs: name -> async program(mpc, pid) returning something comparable across parties"""
    progs_ = {}

    async def conv(mpc, pid):
        secint, secfxp, secfld = mpc.SecInt(16), mpc.SecFxp(16, 8), mpc.SecFld(101)
        a = mpc.input(secint(pid + 5), senders=0)
        x = mpc.convert(a, secfxp)
        y = mpc.convert(x * 1.5, mpc.SecInt(32))
        z = mpc.convert(a, secfld)
        return [await mpc.output(y), int(await mpc.output(z)), await mpc.output(mpc.convert([a, a + 1], mpc.SecFxp(32, 16)))]
    progs_['convert'] = conv

    async def bits(mpc, pid):
        secint = mpc.SecInt(8)
        a = mpc.input(secint(37 + pid), senders=1 % len(mpc.parties))
        b = mpc.to_bits(a)
        c = mpc.from_bits(b)
        r = mpc.random_bits(secint, 5)
        u = mpc.unit_vector(secint(3), 6)
        out = await mpc.output([c] + b + u)
        rb = await mpc.output(r)
        return [out, [x in (0, 1) for x in rb]]
    progs_['bits'] = bits

    async def flt(mpc, pid):
        secflt = mpc.SecFlt(16)
        a = mpc.input(secflt(1.5), senders=0)
        b = secflt(-2.25)
        c = a * b + a
        return [round(await mpc.output(c), 3), await mpc.output(a < b)]
    progs_['secflt'] = flt

    async def lists(mpc, pid):
        secint = mpc.SecInt(16)
        s = mpc.seclist([3, 1, 4, 1, 5], secint)
        i = mpc.input(secint(2), senders=0)
        v = s[i]
        s[i] = secint(9)
        s.sort()
        return [await mpc.output(v), await mpc.output(list(s)), await mpc.output(s.count(1))]
    progs_['seclist'] = lists

    async def sort_stat(mpc, pid):
        secint = mpc.SecInt(16)
        x = mpc.input([secint(v) for v in (5, -3, 8, 0, 2)], senders=0)
        srt = mpc.sorted(x)
        mn = mpc.statistics.mean(x)
        md = mpc.statistics.median(x)
        am = mpc.argmax(x)
        return [await mpc.output(srt), await mpc.output(mn), await mpc.output(md), await mpc.output(list(am))]
    progs_['sort-stat'] = sort_stat

    async def rnd(mpc, pid):
        secint = mpc.SecInt(16)
        r = mpc.random.randrange(secint, 10)
        p = mpc.random.random_permutation(secint, 4)
        u = mpc.random.random_unit_vector(secint, 5)
        rr, pp, uu = await mpc.output(r), await mpc.output(p), await mpc.output(u)
        return [0 <= rr < 10, sorted(pp) == [0, 1, 2, 3], sum(uu) == 1]
    progs_['random'] = rnd

    async def fld(mpc, pid):
        f256 = mpc.SecFld(2**8)
        f7 = mpc.SecFld(7)
        a = mpc.input(f256(pid + 17), senders=0)
        b = a * a + a
        c = mpc.input(f7(3), senders=0)
        d = c * c / (c + 1)
        z = mpc.is_zero(d)
        return [int(await mpc.output(b)), int(await mpc.output(d)), int(await mpc.output(z)), await mpc.is_zero_public(c), int(await mpc.output(1 / a))]
    progs_['fields'] = fld

    async def grp(mpc, pid):
        secgrp = mpc.SecGrp(mpc.SecGrp.__globals__['fg'].QuadraticResidues(l=64)) if False else None
        from mpyc import fingroups
        G = fingroups.QuadraticResidues(l=32)
        secgrp = mpc.SecGrp(G)
        g = G.generator
        a = mpc.input(secgrp(g ^ 5), senders=0)
        b = a @ a
        c = ~b
        e = mpc.input(mpc.SecFld(G.order)(3), senders=0)
        d = a ^ e
        return [int(await mpc.output(b)) == int((g ^ 5) @ (g ^ 5)), int(await mpc.output(c @ b)) == int(G.identity), int(await mpc.output(d)) == int(g ^ 15)]
    progs_['groups'] = grp

    async def transfer(mpc, pid):
        m = len(mpc.parties)
        x = await mpc.transfer(('hello', pid), senders=[0, m - 1], receivers=list(range(m)))
        y = await mpc.transfer(pid * 10)
        secint = mpc.SecInt(16)
        z = await mpc.output(mpc.input(secint(pid))[m - 1], receivers=[0])
        return [x, y, z if pid == 0 else 'none']
    progs_['transfer'] = transfer
    from vlib import progs as _p
    progs_['threshold_switch'] = _p.threshold_switch_program()[0]

    async def small_field_bits(mpc, pid):
        # random bits over small prime fields: a party's share of a nonzero value is 0 with probability 1/p, its view must not steer the number of rounds
        tot = []
        for q in (7, 11, 13, 5):
            F = mpc.SecFld(q)
            bits = []
            for _ in range(12):
                bits.extend(mpc.random_bits(F, 1))
            bits.extend(mpc.random_bits(F, 5))
            tot.append(int(await mpc.output(mpc.sum(bits))))
        return tot
    progs_['small_field_bits'] = small_field_bits

    async def handled_error_then_pending(mpc, pid):
        # the program handles an exception raised by a call (documented ValueError), then leaves a many-round computation pending when it shuts down
        secint = mpc.SecInt(32)
        a = mpc.input(secint(2 + pid), senders=0)
        try:
            mpc.indexOf([], a)
        except ValueError:
            pass
        @mpc.coroutine
        async def chain(x):
            # a coroutine that opens intermediate values (as quickselect or the random functions do): many rounds, one after the other
            await mpc.returnType(secint)
            y = x
            for _ in range(10):
                b = await mpc.output(y * x > 0)
                y = y + b
            return y
        y = a
        for _ in range(4):
            y = y * a
            y = mpc.if_else(y < 0, y, y - 1)
        mpc.peek(y)
        chain(a)                  # left pending: shutdown() has to wait for all of its rounds
        return True
    progs_['handled_error_then_pending'] = handled_error_then_pending
    return progs_


def check_world(w, rec, what, case, feats, completed_required=True):
    """the offline history checker (C09 oracle); returns number of problems"""
    n = 0
    total_frames = 0
    for (i, j) in w.conns:
        fr, hs, rest = w.frames(i, j)
        total_frames += len(fr)
        rec.count('connections_checked')
    rec.count('frames_parsed', total_frames)
    rec.count('receives_recorded', len(w.recv_log))
    probs = w.wire_check()
    done = w.status == 'DONE' and all(r[0] == 'OK' for r in w.results())
    for p in probs:
        if 'duplicate labels' in p:
            mech = 'duplicate-label'
        elif 'payload handed over differs' in p:
            mech = 'payload-mismatch'
        elif 'delivered but never handed' in p:
            if w.status not in ('DEADLOCK', 'DONE'):
                continue                                   # only final states: while the world is still moving the hand-over may yet happen
            mech = 'delivered-not-handed-over'
        elif not done:
            # unmatched receives are only judged "once all parties have shut down"; but a run that has reached quiescence (no party can take a step and
            # nothing is in flight) is final too: a message that was sent under one label while the peer waits under another label on the same
            # connection will never be consumed
            if w.status == 'DEADLOCK' and 'multisets differ' in p and 'sent-not-received []' not in p and 'received-not-sent []' not in p:
                n += 1
                rec.violation(f'{what}: run reached quiescence with {p}', dict(feats, mechanism='label-disagreement-at-quiescence'), case, case=case.get('case'))
            continue
        elif 'multisets differ' in p:
            mech = 'unmatched'
        elif 'after the connection was closed' in p:
            mech = 'sent-after-close'
        else:
            mech = 'leftover'
        n += 1
        rec.violation(f'{what}: {p}', dict(feats, mechanism=mech), case, case=case.get('case'))
    if done and getattr(w, 'drain_after', False) and not w.crashed:
        # all parties have shut down: a computation that is still alive now can only post receives nobody will answer and messages nobody can be sent
        alive = [len(x) for x in w.pending_tasks]
        errs = [e for e in w.error_summaries() if "'NoneType' object has no attribute 'send'" in e]
        rec.count('worlds_checked_after_shutdown')
        if any(alive) and errs:
            n += 1
            rec.violation(f'{what}: after every party had shut down, MPyC computations were still running ({alive} tasks per party) and tried to send {len(errs)} message(s) '
                          f'on connections that no longer exist', dict(feats, mechanism='send-after-shutdown'), case, case=case.get('case'))
    return n, total_frames, done


def run(shard, rec):
    from vlib import env
    env.prepare()
    from vlib import sim, progs, runner
    sim.install()
    m, t, no_prss = shard['cfg']
    rng = random.Random(f"c09/{shard['seed']}/{shard['name']}")
    if shard['kind'] == 'dag':
        for pi in range(shard['programs']):
            spec = progs.gen(rng, m, l=rng.choice([8, 16, 32]), ops=progs.CHEAP if pi % 3 else [o for o in progs.ALL if not o.startswith(('gcd', 'lcm', 'inverse'))],
                             n_steps=(3, 7))
            if pi % 5 != 2:
                spec['sleepy'] = None
            for policy in rng.sample(sim.POLICIES, 3):
                sseed = rng.randrange(1 << 30)
                case = [shard['name'], pi, policy, sseed]
                if not rec.wants(case):
                    continue
                nb = pi % 3 == 1            # a third of the programs run with barriers disabled (--no-barrier)
                w = runner.run_spec(m, t, no_prss, spec, policy, sseed, world_kwargs={'no_barrier': nb, 'drain_after': True})
                rec.count('runs')
                rec.count('runs_no_barrier', int(nb))
                feats = {'asymmetric_yield': spec.get('sleepy') is not None or (no_prss and progs.timing_skew(spec)), 'deferred_bump': bool(w.deferred_bumps)}      # F-C08-1's condition: one party yields, or (F-C01-2) without PRSS a public/opened value is awaited mid-program
                n, frames, done = check_world(w, rec, f'{shard["name"]} program {pi} policy {policy}', {'case': case, 'spec': spec, 'policy': policy, 'sched_seed': sseed}, feats)
                rec.count('runs_completed' if done else 'runs_not_completed')
                rec.case([shard['name'], pi, w.sched_sig()], nontrivial=frames > 0,
                         sample={'config': shard['name'], 'steps': [s[0] for s in spec['steps']], 'policy': policy, 'frames': frames,
                                 'labels_first_conn': [f[0] for f in w.frames(0, 1)[0][:4]]} if pi == 0 else None)
        from vlib import fxprogs
        for pi in range(max(24, 2 * shard['programs'])):
            spec = fxprogs.gen(rng, m, l=16, f=8, ops=fxprogs.CHEAP + ['mul_float', 'div_pub', 'mul_float', 'mul_float'], n_steps=(3, 7))
            if pi % 2 == 0:
                spec['sleepy'] = rng.randrange(m)          # one party yields once to its event loop between two top-level calls (timing skew between parties)
            for policy in rng.sample(sim.POLICIES, 3):
                sseed = rng.randrange(1 << 30)
                case = [shard['name'], 'fxp', pi, policy, sseed]
                if not rec.wants(case):
                    continue
                w = sim.World(m, t, no_prss, seed=sseed, policy=policy, history='auto', drain_after=True).run(fxprogs.build(spec))
                rec.count('runs')
                feats = {'asymmetric_yield': spec.get('sleepy') is not None, 'deferred_bump': bool(w.deferred_bumps)}
                n, frames, done = check_world(w, rec, f'{shard["name"]} fxp program {pi} {[s[0] for s in spec["steps"]]} policy {policy}', {'case': case, 'fxspec': spec, 'policy': policy}, feats)
                rec.count('runs_completed' if done else 'runs_not_completed')
                if not done:
                    rec.note_side(f'{shard["name"]} fxp program {pi}: {w.status} {w.error_summaries()[:1]}')
                rec.case([shard['name'], 'fxp', pi, w.sched_sig()], nontrivial=frames > 0)
        return
    micro = micro_programs()
    for name, prog in micro.items():
        for rep in range(shard['reps']):
            for policy in (['uniform', 'lazy'] if rep == 0 else rng.sample(sim.POLICIES, 2)):
                sseed = rng.randrange(1 << 30)
                case = [shard['name'], name, policy, sseed]
                if not rec.wants(case):
                    continue
                w = sim.World(m, t, no_prss, seed=sseed, policy=policy, history='auto', drain_after=True).run(prog)
                rec.count('runs')
                feats = {'asymmetric_yield': False, 'deferred_bump': bool(w.deferred_bumps), 'micro': name}
                n, frames, done = check_world(w, rec, f'{shard["name"]} {name} policy {policy}', {'case': case}, feats)
                if not done:
                    # a micro program that does not complete is not C09's verdict, but must not pass silently
                    rec.count('runs_not_completed')
                    rec.note_side(f'{shard["name"]} {name} {policy}: status {w.status} results {[r[0] for r in w.results()]} errors {w.error_summaries()[:1]}')
                else:
                    rec.count('runs_completed')
                    res = w.ok_results()
                    if any(repr(r) != repr(res[0]) for r in res) and name not in ('transfer',):
                        rec.note_side(f'{shard["name"]} {name}: parties disagree {res[:2]}')
                rec.seen('micro_programs', name)
                rec.case([shard['name'], name, w.sched_sig()], nontrivial=frames > 0,
                         sample={'config': shard['name'], 'micro': name, 'frames': frames, 'policy': policy} if rep == 0 and policy == 'lazy' and name in ('convert', 'secflt') else None)
