"""C07 — input, output and transfer reach exactly the designated parties."""
import random
import asyncio

PROPERTY = 'C07'
ENGINE = 'SIM'
LEVEL = 'exploration'
TECHNIQUE = 'runtime monitoring of m real parties: every party records what each routing operation returned; a 20-line routing model (who sends what to whom, in which order) is the oracle'
RULE = ('case = (configuration, sequence of routing operations with their sender/receiver sets or graphs, payloads, thresholds); '
        'non-trivial = m >= 2 and the operation has a proper subset of senders or receivers or an explicit threshold; distinct by (config, operation descriptor)')
ASSUMPTIONS = ['SIM transport assumptions as in C08', 'for list-form sender sets a non-receiver may obtain [] (the list form of "nothing")']
REQUIRE = {'any': {'transfer_ops': 200, 'input_ops': 80, 'output_ops': 150, 'nonreceiver_results_checked': 300}}
LEVEL_TEXT = 'exploration: random sender/receiver subsets, graphs (dict and arc-list forms), int/list/range forms, picklable payloads, secure types int/fxp/fld/flt/group, thresholds t..2t, all configurations'
LEVEL_NOTE = 'trusted: vlib/sim.py; routing model in this file'
TIMEOUT = {'quick': 1500, 'thorough': 10000}

from vlib.runner import config_name
Q_CONFIGS = [(1, 0, False), (2, 0, False), (3, 1, False), (3, 1, True), (4, 1, False), (5, 2, False), (5, 1, True), (7, 3, False), (6, 2, True)]


def shards(tier, seed):
    from vlib.runner import ALL_CONFIGS
    cfgs = Q_CONFIGS if tier == 'quick' else ALL_CONFIGS
    return [{'name': config_name(c), 'cfg': list(c), 'programs': (300 if c[0] <= 5 else 120) if tier == 'quick' else 1500} for c in cfgs]


def payload(rng, pid, k):
    base = rng.choice([None, 0, -1, 2**70 + pid, 1.5, 'txt', b'\x00\xff', (), [], {}])
    return {'k': k, 'from': pid, 'v': [base, (pid, [pid] * (k % 3)), {'n': {pid: b'x' * (k % 5)}}]}


def subset(rng, m, allow_empty=True):
    k = rng.randint(0 if allow_empty else 1, m)
    r = sorted(rng.sample(range(m), k)) if rng.random() < 0.7 else rng.sample(range(m), k)
    if r and rng.random() < 0.06:
        r = r + [rng.choice(r)]              # the same party named twice: still the same set of parties
    return r


def gen_ops(rng, m, t):
    ops = []
    for k in range(1):
        kind = rng.choice(['transfer', 'transfer', 'graph', 'input', 'output', 'output'])
        if kind == 'transfer':
            sform = rng.choice(['none', 'int', 'list', 'range'])
            rform = rng.choice(['none', 'int', 'list', 'range'])
            S = None if sform == 'none' else (rng.randrange(m) if sform == 'int' else (subset(rng, m) if sform == 'list' else ['range', rng.randint(0, m)]))
            R = None if rform == 'none' else (rng.randrange(m) if rform == 'int' else (subset(rng, m) if rform == 'list' else ['range', rng.randint(0, m)]))
            op = {'kind': 'transfer', 'S': S, 'R': R, 'seed': rng.randrange(1 << 20)}
            if rng.random() < 0.5:
                op['late'] = [rng.randrange(m), rng.randint(1, 12)]      # one party reaches the call late: messages for it are already there
            if isinstance(S, list) and isinstance(R, list) and S[:1] != ['range'] and R[:1] != ['range'] and rng.random() < 0.6:
                # the same list objects were used for another transfer just before, and were updated in place by the caller
                op['prev'] = {'kind': 'transfer', 'S': subset(rng, m), 'R': subset(rng, m), 'seed': rng.randrange(1 << 20)}
            ops.append(op)
        elif kind == 'graph':
            arcs = [(rng.randrange(m), rng.randrange(m)) for _ in range(rng.randint(0, 2 * m))]
            arcs = list(dict.fromkeys(arcs))
            form = rng.choice(['arcs', 'dict_full', 'dict_sparse'])
            op = {'kind': 'graph', 'arcs': [list(a) for a in arcs], 'form': form, 'seed': rng.randrange(1 << 20)}
            if rng.random() < 0.5:
                op['late'] = [rng.randrange(m), rng.randint(1, 12)]
            if rng.random() < 0.5:
                arcs0 = list(dict.fromkeys((rng.randrange(m), rng.randrange(m)) for _ in range(rng.randint(0, 2 * m))))
                op['prev'] = {'kind': 'graph', 'arcs': [list(a) for a in arcs0], 'form': form, 'seed': rng.randrange(1 << 20)}
            ops.append(op)
        elif kind == 'input':
            sform = rng.choice(['none', 'int', 'list'])
            S = None if sform == 'none' else (rng.randrange(m) if sform == 'int' else subset(rng, m, allow_empty=False))
            ops.append({'kind': 'input', 'S': S, 'type': rng.choice(['int', 'int', 'fxp', 'fld', 'flt', 'grp', 'intlist', 'intlist', 'xfld']), 'base': rng.randint(-20, 20)})
        else:
            rform = rng.choice(['none', 'int', 'list', 'list'])
            R = None if rform == 'none' else (rng.randrange(m) if rform == 'int' else subset(rng, m, allow_empty=rng.random() < 0.4))
            thr = rng.choice([None, None] + list(range(t, 2 * t + 1)))
            if thr is not None and thr > m - 1:
                thr = None
            ops.append({'kind': 'output', 'R': R, 'thr': thr, 'type': rng.choice(['int', 'int', 'fxp', 'fld', 'flt', 'grp', 'intlist', 'xfld']), 'val': rng.randint(-30, 30),
                        'owner': rng.randrange(m)})
    return ops


def as_set(x, m):
    if x is None:
        return list(range(m))
    if isinstance(x, int):
        return [x]
    if isinstance(x, list) and len(x) == 2 and x[0] == 'range':
        return list(range(x[1]))
    return list(x)


def as_arg(x):
    if isinstance(x, list) and len(x) == 2 and x[0] == 'range':
        return range(x[1])
    return x


def model(op, m, pid, payloads):
    """expected return value of `op` at party pid (payloads[s] = what sender s supplies)"""
    if op['kind'] == 'transfer':
        S, R = as_set(op['S'], m), as_set(op['R'], m)
        if pid not in R:
            return ('none-or-empty',)
        vals = [payloads[s] for s in S]
        return ('value', vals[0]) if isinstance(op['S'], int) else ('value', vals)
    if op['kind'] == 'graph':
        arcs = [tuple(a) for a in op['arcs']]
        if op['form'] == 'arcs':
            mine = [payloads[a] for a, b in arcs if b == pid]
        else:
            d = {}
            for a, b in arcs:
                d.setdefault(a, []).append(b)
            keys = list(d) if op['form'] == 'dict_sparse' else list(range(m))
            mine = [payloads[a] for a in keys if pid in d.get(a, [])]
        return ('value', mine) if mine else ('none-or-empty',)
    raise KeyError


def run(shard, rec):
    from vlib import env
    env.prepare()
    from vlib import sim
    sim.install()
    from mpyc import fingroups
    m, t, no_prss = shard['cfg']
    rng = random.Random(f"c07/{shard['seed']}/{shard['name']}")
    G = fingroups.QuadraticResidues(l=24)
    for pi in range(shard['programs']):
        ops = gen_ops(rng, m, t)
        policy = rng.choice(sim.POLICIES)
        sseed = rng.randrange(1 << 30)
        case = [shard['name'], pi, policy, sseed]
        if not rec.wants(case):
            continue
        got = [[None] * len(ops) for _ in range(m)]
        gotprev = [None] * m

        async def program(mpc, pid):
            types = {'int': mpc.SecInt(16), 'fxp': mpc.SecFxp(16, 8), 'fld': mpc.SecFld(101), 'flt': mpc.SecFlt(16), 'grp': mpc.SecGrp(G)}
            # two fields of the same order with different irreducible moduli (AES and Reed-Solomon polynomials), used in one run
            xf = [mpc.SecFld(modulus='x^8+x^4+x^3+x+1'), mpc.SecFld(modulus='x^8+x^4+x^3+x^2+1')]

            def mk(tp, v):
                if tp == 'grp':
                    return types['grp'](G.generator ^ (v % 1000))
                if tp == 'fld':
                    return types['fld'](v % 101)
                if tp == 'fxp':
                    return types['fxp'](v / 4, integral=False)
                if tp == 'flt':
                    return types['flt'](float(v) * 1.5)
                return types['int'](v)

            async def opened(x):
                r = await mpc.output(x)
                return [int(a) for a in r] if isinstance(r, list) else (int(r) if not isinstance(r, float) else r)
            for k, op in enumerate(ops):
                try:
                    if op['kind'] in ('transfer', 'graph') and op.get('late') and op['late'][0] == pid:
                        for _ in range(op['late'][1]):
                            await asyncio.sleep(0)
                    if op['kind'] == 'transfer':
                        prng = random.Random(op['seed'] * 100 + pid)
                        if op.get('prev'):
                            p0 = op['prev']
                            Sx, Rx = list(p0['S']), list(p0['R'])
                            gotprev[pid] = await mpc.transfer(payload(random.Random(p0['seed'] * 100 + pid), pid, k), senders=Sx, receivers=Rx)
                            Sx[:] = op['S']
                            Rx[:] = op['R']
                            got[pid][k] = await mpc.transfer(payload(prng, pid, k), senders=Sx, receivers=Rx)
                        else:
                            got[pid][k] = await mpc.transfer(payload(prng, pid, k), senders=as_arg(op['S']), receivers=as_arg(op['R']))
                    elif op['kind'] == 'graph':
                        prng = random.Random(op['seed'] * 100 + pid)

                        def fill(g, arcs_):
                            if isinstance(g, list):
                                g[:] = [tuple(a) for a in arcs_]
                            else:
                                g.clear()
                                if op['form'] != 'dict_sparse':
                                    g.update({i: [] for i in range(m)})
                                for a, b in arcs_:
                                    g.setdefault(a, []).append(b)
                            return g
                        g = [] if op['form'] == 'arcs' else {}
                        if op.get('prev'):
                            p0 = op['prev']
                            gotprev[pid] = await mpc.transfer(payload(random.Random(p0['seed'] * 100 + pid), pid, k), sender_receivers=fill(g, p0['arcs']))
                        got[pid][k] = await mpc.transfer(payload(prng, pid, k), sender_receivers=fill(g, op['arcs']))
                    elif op['kind'] == 'input':
                        tp = op['type']
                        mine = op['base'] + 3 * pid
                        if tp == 'xfld':
                            order = (0, 1) if op['base'] % 2 else (1, 0)        # which of the two fields is used first varies (same at all parties)
                            res = {}
                            for fi in order:
                                yy = mpc.input(xf[fi]((mine + 17 * fi) % 256), senders=as_arg(op['S']))
                                res[fi] = await opened(yy) if isinstance(op['S'], int) else [await opened(a) for a in yy]
                            got[pid][k] = [res[0], res[1]] if isinstance(op['S'], int) else [[a, b] for a, b in zip(res[0], res[1])]
                            continue
                        x = [mk('int', mine), mk('int', mine + 1)] if tp == 'intlist' else mk(tp, mine)
                        y = mpc.input(x, senders=as_arg(op['S']))
                        if tp == 'intlist':
                            x[0], x[1] = mk('int', 99), mk('int', -99)       # the caller reuses its buffer right after the call: the values as passed are the inputs
                        if isinstance(op['S'], int):
                            got[pid][k] = await opened(y)
                        else:
                            got[pid][k] = [await opened(a) for a in y]
                    else:
                        tp = op['type']
                        v = op['val']
                        if tp == 'xfld':
                            order = (0, 1) if v % 2 else (1, 0)
                            kw = {} if op['thr'] is None else {'threshold': op['thr']}
                            res = {}
                            for fi in order:
                                xx = mpc.input(xf[fi]((v + 17 * fi) % 256 if pid == op['owner'] else 0), senders=op['owner'])
                                res[fi] = await mpc.output(xx, receivers=as_arg(op['R']), **kw)
                            got[pid][k] = None if res[0] is None and res[1] is None else [res[0], res[1]]
                            continue
                        x = [mk('int', v), mk('int', v + 7)] if tp == 'intlist' else mk(tp, v)
                        # the value is shared first (by its owner) so that recombination really happens
                        if tp == 'intlist':
                            x = mpc.input([mk('int', v if pid == op['owner'] else 0), mk('int', v + 7 if pid == op['owner'] else 0)], senders=op['owner'])
                        else:
                            x = mpc.input(mk(tp, v if pid == op['owner'] else 0), senders=op['owner'])
                        kw = {} if op['thr'] is None else {'threshold': op['thr']}
                        r = await mpc.output(x, receivers=as_arg(op['R']), **kw)
                        got[pid][k] = r
                except Exception as e:
                    got[pid][k] = ('EXC', f'{type(e).__name__}: {e}')
            return True
        w = sim.World(m, t, no_prss, seed=sseed, policy=policy, history='auto').run(program)
        rec.count('runs')
        done = w.ok_results() is not None

        def V(mech, k, text, extra=None):
            f = {'mechanism': mech, 'op': ops[k]['kind'] if k is not None else None,
                 'party_named_twice': k is not None and any(isinstance(o_.get(key), list) and o_[key][:1] != ['range'] and len(set(o_[key])) < len(o_[key])
                                                            for o_ in (ops[k], ops[k].get('prev') or {}) for key in ('S', 'R'))}
            f.update(extra or {})
            rec.violation(f'{shard["name"]} program {pi} op {k} {ops[k] if k is not None else ""}: {text}', f, {'ops': ops, 'policy': policy, 'sched_seed': sseed}, case=case)
        # classify a non-completing world by the first operation that some party did not get past
        if not done:
            firstbad = min((k for pid in range(m) for k in range(len(ops)) if got[pid][k] is None and not _legit_none(ops[k], m, pid)), default=None)
            k = firstbad if firstbad is not None else 0
            op = ops[k]
            V('no-termination', k, f'world ended {w.status}; errors {w.error_summaries()[:2]}',
              {'type': op.get('type'), 'receivers_empty': op['kind'] == 'output' and as_set(op.get('R'), m) == [],
               'senders_int': isinstance(op.get('S'), int), 'receivers_proper_subset': op['kind'] == 'transfer' and set(as_set(op.get('R'), m)) != set(range(m)),
               'dict_sparse': op.get('form') == 'dict_sparse'})
            rec.case(case, nontrivial=m >= 2)
            continue
        for k, op in enumerate(ops):
            kind = op['kind']
            nontriv = m >= 2
            if kind in ('transfer', 'graph'):
                rec.count('transfer_ops')
                pl = {}
                for s in range(m):
                    pl[s] = payload(random.Random(op['seed'] * 100 + s), s, k)
                checks = [(op, got[pid][k], pid, pl, '') for pid in range(m)]
                if op.get('prev'):
                    rec.count('transfers_reusing_updated_argument_objects')
                    pl0 = {s_: payload(random.Random(op['prev']['seed'] * 100 + s_), s_, k) for s_ in range(m)}
                    checks += [(op['prev'], gotprev[pid], pid, pl0, ' (earlier transfer with the same argument objects)') for pid in range(m)]
                if op.get('late'):
                    rec.count('transfers_with_a_late_party')
                for (op_, g, pid, pl_, note) in checks:
                    exp = model(op_, m, pid, pl_)
                    extra = {'senders_int': isinstance(op.get('S'), int), 'receivers_proper_subset': kind == 'transfer' and set(as_set(op.get('R'), m)) != set(range(m)),
                             'dict_sparse': op.get('form') == 'dict_sparse', 'is_receiver': exp[0] == 'value'}
                    if isinstance(g, tuple) and g and g[0] == 'EXC':
                        V('raised', k, f'party {pid}: {g[1]}', extra)
                    elif exp[0] == 'none-or-empty':
                        rec.count('nonreceiver_results_checked')
                        if g is not None and g != []:
                            V('nonreceiver-got-data', k, f'party {pid} is not a receiver{note} but obtained {str(g)[:120]}', extra)
                    elif g != exp[1]:
                        V('wrong-delivery', k, f'party {pid}{note} obtained {str(g)[:160]} expected {str(exp[1])[:160]}', extra)
            elif kind == 'input':
                rec.count('input_ops')
                S = as_set(op['S'], m)
                tp = op['type']

                def val(s):
                    mine = op['base'] + 3 * s
                    return {'int': mine, 'fld': mine % 101, 'fxp': mine / 4, 'flt': mine * 1.5, 'grp': int(G.generator ^ (mine % 1000)), 'intlist': [mine, mine + 1],
                            'xfld': [mine % 256, (mine + 17) % 256]}[tp]
                exp = val(S[0]) if isinstance(op['S'], int) else [val(s) for s in S]
                for pid in range(m):
                    g = got[pid][k]
                    if isinstance(g, tuple) and g and g[0] == 'EXC':
                        V('raised', k, f'party {pid}: {g[1]}', {'type': tp})
                    elif not _close(g, exp, tp):
                        V('input-opens-wrong', k, f'party {pid}: inputs open to {str(g)[:150]}, senders supplied {str(exp)[:150]}', {'type': tp})
            else:
                rec.count('output_ops')
                R = as_set(op['R'], m)
                tp, v = op['type'], op['val']
                exp = {'int': v, 'fld': v % 101, 'fxp': v / 4, 'flt': v * 1.5, 'grp': int(G.generator ^ (v % 1000)), 'intlist': [v, v + 7], 'xfld': [v % 256, (v + 17) % 256]}[tp]
                seen = []
                for pid in range(m):
                    g = got[pid][k]
                    if isinstance(g, tuple) and g and g[0] == 'EXC':
                        V('raised', k, f'party {pid}: {g[1]}', {'type': tp})
                        continue
                    if pid in R:
                        gg = [int(a) for a in g] if isinstance(g, list) else (g if isinstance(g, float) or g is None else int(g))
                        if not _close(gg, exp, tp):
                            V('wrong-output', k, f'receiver {pid} obtained {str(g)[:100]}, value is {exp}', {'type': tp, 'thr_explicit': op['thr'] is not None})
                        seen.append(gg)
                    else:
                        rec.count('nonreceiver_results_checked')
                        if not (g is None or (isinstance(g, list) and all(a is None for a in g))):
                            V('nonreceiver-got-output', k, f'party {pid} is not a receiver but obtained {str(g)[:100]}', {'type': tp})
                if any(repr(s) != repr(seen[0]) for s in seen):
                    V('receivers-disagree', k, f'receivers obtained different values {seen[:4]}', {'type': tp})
            rec.case([shard['name'], pi, k], nontrivial=nontriv and (op.get('S') is not None or op.get('R') is not None or op.get('thr') is not None or kind == 'graph'),
                     sample={'config': shard['name'], 'op': op} if pi == 0 and k < 2 else None)


def _legit_none(op, m, pid):
    if op['kind'] == 'output':
        return pid not in as_set(op['R'], m)
    if op['kind'] == 'transfer':
        return pid not in as_set(op['R'], m)
    return False


def _close(g, exp, tp):
    if tp in ('fxp', 'flt'):
        try:
            if isinstance(exp, list):
                return isinstance(g, list) and len(g) == len(exp) and all(abs(float(a) - b) <= 0.02 + abs(b) * 0.01 for a, b in zip(g, exp))
            return abs(float(g) - exp) <= 0.02 + abs(exp) * 0.01
        except Exception:
            return False
    return g == exp
