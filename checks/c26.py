"""C26 — generated field primes meet their size, Blum and root-of-unity constraints."""
import random

PROPERTY = 'C26'
ENGINE = 'UNIT'
LEVEL = 'exploration'
TECHNIQUE = 'runtime contract monitor on real find_prime_root and on the fields chosen by SecInt/SecFxp in real runtimes (m,t,k varied); primality and multiplicative order by an independent reference'
RULE = ('case = (l, blum, n) for find_prime_root; (m, t, k, l, f) for secure types; non-trivial = l >= 3; distinct by that tuple')
EXHAUSTIVE = 'find_prime_root: all l in 1..128 (quick) / 1..320 (thorough) x blum x n in {1,2,3,5,7,11,13,257,65537,4,6,100}'
ASSUMPTIONS = ['deterministic Miller-Rabin reference (vlib/oracles/ref.py)', 'blum=False with n>2 is outside the domain (asserted by the function itself)']
REQUIRE = {'any': {'find_prime_root_checked': 500, 'sectype_fields_checked': 300}}
LEVEL_TEXT = 'exploration, complete over the bounded grid of (l, blum, n) and a grid of secure type parameters in configurations (1,0),(3,1),(7,3)'
LEVEL_NOTE = 'trusted: vlib/oracles/ref.py'

NS = [1, 2, 3, 5, 7, 11, 13, 257, 65537, 4, 6, 100]


def shards(tier, seed):
    L = 128 if tier == 'quick' else 320
    out = [{'name': f'fpr-{b}', 'kind': 'fpr', 'lo': lo, 'hi': hi} for b, (lo, hi) in enumerate([(1, L // 4), (L // 4 + 1, L // 2), (L // 2 + 1, 3 * L // 4), (3 * L // 4 + 1, L)])]
    for (m, t) in [(1, 0), (3, 1), (7, 3), (5, 0)]:
        for k in (0, 1, 8, 30, 40):
            out.append({'name': f'types-m{m}t{t}k{k}', 'kind': 'types', 'm': m, 't': t, 'k': k, 'L': 64 if tier == 'quick' else 128})
    return out


def run(shard, rec):
    from vlib import env
    env.prepare()
    from vlib.oracles import ref as R
    rng = random.Random(f"c26/{shard['seed']}/{shard['name']}")
    if shard['kind'] == 'fpr':
        from mpyc import finfields
        for l in range(shard['lo'], shard['hi'] + 1):
            for blum in ((True, False) if l % 2 else (False, True)):      # both call orders occur (results must not depend on call history)
                for n in NS:
                    case = ['fpr', l, blum, n]
                    if not rec.wants(case):
                        continue
                    feats = {'fn': 'find_prime_root', 'l_le_2': l <= 2}
                    if not blum and n > 2:
                        continue                       # outside the function's asserted domain
                    rec.count('find_prime_root_checked')
                    try:
                        p, n2, w = finfields.find_prime_root(l, blum, n)
                    except Exception as e:
                        rec.violation(f'find_prime_root({l},{blum},{n}) raised {type(e).__name__}: {e}', dict(feats, clause='raises'), {'case': case}, case=case)
                        rec.case(case, nontrivial=l >= 3)
                        continue
                    bad = None
                    if not (R.is_prime_mr(p)):
                        bad = ('prime', f'p={p} is not prime')
                    elif p.bit_length() < l:
                        bad = ('bits', f'p has {p.bit_length()} bits < {l}')
                    elif n <= 2 and l >= 2 and p.bit_length() != l:
                        bad = ('bits-exact', f'n<=2 but p has {p.bit_length()} bits, not exactly {l}')
                    elif blum and p % 4 != 3:
                        bad = ('blum', f'p={p} is not 3 mod 4')
                    else:
                        # root: order exactly the (prime) order returned, which must cover the request
                        if n == 1:
                            if w != 1 and not (n2 == 2 and w == p - 1 and False):
                                bad = ('root', f'n=1 but root w={w} (n returned {n2})')
                        else:
                            if n2 < n:
                                bad = ('root-order', f'returned order {n2} < requested {n}')
                            elif not (0 < w < p) or pow(w, n2, p) != 1 or (n2 > 1 and w == 1) or (not R.is_prime_td(n2) and n2 != 1):
                                bad = ('root', f'w={w} does not have prime order {n2} mod {p}')
                            elif R.is_prime_td(n) and n2 != n:
                                bad = ('root-order', f'requested prime order {n}, got {n2}')
                    if bad:
                        rec.violation(f'find_prime_root({l},{blum},{n}) = ({p},{n2},{w}): {bad[1]}', dict(feats, clause=bad[0]), {'case': case}, case=case)
                    rec.case(case, nontrivial=l >= 3, sample={'l': l, 'blum': blum, 'n': n, 'p': str(p), 'w': str(w)} if rng.random() < 0.004 else None)
        return
    from vlib import sim
    sim.install()
    m, t, k = shard['m'], shard['t'], shard['k']
    w = sim.World(m, t, seed=shard['seed'], sec_param=k)
    ctx = w.ctx[0]

    def types():
        mpc = sim.NS.proxy
        for l in list(range(1, shard['L'] + 1)):
            for f in (None, 0, 1, l // 2, l):
                for n in (2, 1, 3, 257):
                    if f is None:
                        mk, ff, name = (lambda: mpc.SecInt(l, n=n)), 0, 'SecInt'
                    else:
                        if n != 2 and l % 7:
                            continue
                        mk, ff, name = (lambda: mpc.SecFxp(l, f, n=n)), f, 'SecFxp'
                    if n not in (1, 2) and l % 5:
                        continue
                    case = ['type', m, t, k, name, l, ff, n]
                    if not rec.wants(case):
                        continue
                    rec.count('sectype_fields_checked')
                    with rec.guard(f'{name}(l={l},f={ff},n={n}) at m={m},t={t},k={k}', case, {'fn': 'sectype-field', 'clause': 'raises'}):
                        try:
                            st = mk()
                        except AssertionError:
                            # refusing is right exactly when the field of l+f+k+2 bits could not be larger than the number of parties
                            if t > 0 and m >= 2 ** (l + ff + k + 1):
                                rec.count('types_refused_for_too_many_parties')
                                continue
                            raise
                        q = st.field.order
                        bad = None
                        if not R.is_prime_mr(q) or st.field.ext_deg != 1:
                            bad = f'field order {q} is not a prime field'
                        elif q <= 2 ** (l + ff + k + 1):
                            bad = f'field order has {q.bit_length()} bits, not > 2^(l+f+k+1) = 2^{l + ff + k + 1}'
                        elif t > 0 and q <= m:
                            bad = f'field order {q} <= m = {m}'
                        elif n > 2 and pow(st.field.root, st.field.nth, q) != 1:
                            bad = 'root/nth inconsistent'
                        if bad:
                            rec.violation(f'{name}(l={l},f={ff},n={n}) at m={m},t={t},k={k}: {bad}', {'fn': 'sectype-field', 'clause': 'order'}, {'case': case}, case=case)
                    rec.case(case, nontrivial=l >= 3, sample={'type': name, 'l': l, 'f': ff, 'k': k, 'm': m, 'field_bits': q.bit_length()} if rng.random() < 0.004 else None)
    ctx.run(types)

    def supplied_primes():
        # a prime supplied by the caller (p=...) is accepted only if it leaves the l+f+k+1 bits of headroom, and then it is the field
        mpc = sim.NS.proxy
        for l in (2, 5, 8, 16, 32):
            for f in (None, 0, 1, l // 2, l):
                ff = 0 if f is None else f
                for db in (-2, -1, 0, 1, 2, 3, 12):
                    b = l + ff + k + 1 + db
                    if b < 3:
                        continue
                    P = (1 << (b - 1)) + 1
                    while not R.is_prime_mr(P):
                        P += 2
                    if P.bit_length() != b:
                        continue
                    case = ['type-p', m, t, k, l, f, b]
                    if not rec.wants(case):
                        continue
                    rec.count('supplied_primes_checked')
                    name = 'SecInt' if f is None else 'SecFxp'
                    try:
                        st = mpc.SecInt(l, p=P) if f is None else mpc.SecFxp(l, f, p=P)
                        got = st.field.order
                    except (ValueError, AssertionError) as ex:
                        got = None
                    should_accept = b > l + ff + k + 1 and (t == 0 or P > m)
                    if should_accept and got != P:
                        rec.violation(f'{name}(l={l},f={f},p=<{b}-bit prime>) at m={m},t={t},k={k}: {"refused" if got is None else "field order " + str(got)} although the prime leaves the required headroom',
                                      {'fn': 'sectype-field', 'clause': 'supplied-prime-refused'}, {'case': case}, case=case)
                    if not should_accept and got is not None:
                        rec.violation(f'{name}(l={l},f={f},p=<{b}-bit prime>) at m={m},t={t},k={k}: accepted although the field is not larger than 2^(l+f+k+1) = 2^{l + ff + k + 1} (or not larger than m)',
                                      {'fn': 'sectype-field', 'clause': 'supplied-prime-too-small'}, {'case': case}, case=case)
                    rec.case(case, nontrivial=True)
    ctx.run(supplied_primes)
