"""C38 — secure polynomial arithmetic agrees with plain polynomial arithmetic."""
import random

PROPERTY = 'C38'
ENGINE = 'SIM'
LEVEL = 'exploration'
TECHNIQUE = ('runtime oracle monitor (NumPy tier): the real secpoly operators and methods run under the m-party simulator on operands shared by mpc.input; every opened polynomial / value is compared '
             'with gfpx over the same prime field, gfpx itself being cross-checked against an independent schoolbook implementation; a length monitor records the (public) length of every secure result '
             'and requires it to be a function of the operand lengths only')
RULE = ('case = (p, configuration, operation family, coefficient arrays of a and b incl. zero padding); non-trivial = both operands nonzero with length >= 2; distinct by that tuple; '
        'division/inversion by a zero or non-invertible polynomial is outside the domain (gfpx raises) and skipped')
EXHAUSTIVE = ''
ASSUMPTIONS = ['mpyc.gfpx is the specification (monitored by C23) and is cross-checked here against vlib/oracles/ref.py for +,-,*,divmod,gcd,powmod,evaluation,irreducibility',
               'NumPy is installed from the offline wheelhouse by bin/setup; the module documents that p must be large compared to the degree bound: for p = 11 an AssertionError is counted as out of domain']
REQUIRE = {'any': {'worlds': 300, 'values_compared': 2500, 'oracle_crosschecks': 1500, 'length_groups': 40, 'multi_party_worlds': 150}}
LEVEL_TEXT = 'exploration: p in {11, 31, 101, 65537, 2^31-1}, lengths 0..6 with zero padding, 7 operation families covering every operator and method of secpoly, configurations (1,0),(2,0),(3,1)+-PRSS,(5,2)'
LEVEL_NOTE = 'trusted: vlib/oracles/ref.py polynomial arithmetic'
TIMEOUT = {'quick': 1500, 'thorough': 12000}

from vlib.runner import config_name

PRIMES = [11, 31, 101, 65537, 2 ** 31 - 1]
QUICK_CFGS = [(1, 0, False), (2, 0, False), (3, 1, False), (3, 1, True), (5, 2, False)]
THOROUGH_CFGS = QUICK_CFGS + [(3, 0, False), (4, 1, False), (5, 1, True), (5, 2, True), (7, 3, False)]
FAMILIES = ['ring', 'shift', 'divmod', 'cmp', 'gcd', 'eval', 'select']


def shards(tier, seed):
    cfgs = QUICK_CFGS if tier == 'quick' else THOROUGH_CFGS
    out = []
    for p in PRIMES:
        for c in cfgs:
            if tier == 'quick' and c[0] == 5 and p not in (101, 65537):
                continue
            out.append({'name': f'p{p}-{config_name(c)}', 'p': p, 'cfg': list(c), 'cases': (10 if c[0] == 1 else 5) * (1 if tier == 'quick' else 4)})
    return out


def run(shard, rec):
    from vlib import env
    env.prepare(numpy=True)
    from vlib import sim
    from vlib.oracles import ref
    ns = sim.install()
    import numpy as np
    from mpyc.gfpx import GFpX
    from mpyc.secpols import secpoly
    p = shard['p']
    m, t, no_prss = shard['cfg']
    poly = GFpX(p)
    rng = random.Random(f"c38/{shard['seed']}/{shard['name']}")
    MAXSTEPS = [0]
    lengths = {}                                         # (op, la, lb) -> {result length: example}

    def gen(n):
        """coefficient list of length n: random true degree, possibly zero padded / zero"""
        if n == 0:
            return []
        r = rng.random()
        d = n if r < .5 else rng.randrange(0, n + 1)      # number of significant coefficients
        if r > .92:
            d = 0
        c = [rng.randrange(p) for _ in range(d)] + [0] * (n - d)
        if d and rng.random() < .8:
            c[d - 1] = rng.randrange(1, p)
        return c

    def P(c):
        return poly(ref.ptrim([x % p for x in c]))

    def lst(a):
        return [int(x) for x in poly._to_list(a)] if hasattr(poly, '_to_list') else [int(x) for x in a]

    def as_list(x):
        return ref.ptrim([int(c) % p for c in x])

    def crosscheck(what, got_gfpx, exp_ref, case):
        rec.count('oracle_crosschecks')
        g = as_list(got_gfpx) if not isinstance(got_gfpx, (int, bool)) else got_gfpx
        if g != exp_ref:
            rec.violation(f'oracle disagreement (gfpx vs schoolbook) on {what}: {g} vs {exp_ref}', {'mechanism': 'oracle-disagreement', 'op': what}, {'case': case}, case=case)

    for ci in range(shard['cases']):
        la, lb = rng.choice([0, 1, 2, 3, 4, 5, 6, 3, 4, 5]), rng.choice([0, 1, 2, 3, 4, 5, 6, 2, 3, 4])
        if ci % 3 == 0:
            lb = la
        ca, cb = gen(la), gen(lb)
        if ci % 5 == 4:
            cb = list(ca[:lb]) + [0] * max(0, lb - la)    # related operands: equal or prefix
        if ci % 5 == 3 and la >= 3 and lb >= 3:
            # operands with a common factor of degree 1 or 2 (zero padded to the chosen lengths)
            dg = rng.choice([1, 1, 2])
            g0 = [rng.randrange(p) for _ in range(dg)] + [1]
            fa = [rng.randrange(p) for _ in range(rng.randint(0, la - 1 - dg))] + [rng.randrange(1, p)]
            fb = [rng.randrange(p) for _ in range(rng.randint(0, lb - 1 - dg))] + [rng.randrange(1, p)]
            ca = (ref.pmul(g0, fa, p) + [0] * la)[:la]
            cb = (ref.pmul(g0, fb, p) + [0] * lb)[:lb]
        a, b = P(ca), P(cb)
        A, B = ref.ptrim(ca), ref.ptrim(cb)
        for fam in FAMILIES:
            case = [shard['name'], ci, fam, ca, cb]
            if not rec.wants(case):
                continue
            if p == 11 and fam in ('divmod', 'gcd'):
                continue
            dA = len(A) - 1
            feats = {'deg_a_le_half_bound': 1 <= dA <= (la - 1) // 2, 'any_len_0': la == 0 or lb == 0, 'p_small': p < 20, 'family': fam, 'len_a_0': la == 0, 'len_b_0': lb == 0, 'both_len_0': la == 0 and lb == 0, 'a_zero': not A, 'b_zero': not B, 't_gt_0': t > 0, 'm_gt_1': m > 1}
            # ---------------- expected values (plain), op list built alongside
            ops = []                                     # (name, thunk(f, g, mpc, F) -> secure object, expected plain, kind)

            def add(name, thunk, expected, kind='poly'):
                ops.append((name, thunk, expected, kind))
            try:
                if fam == 'ring':
                    add('add', lambda f, g, mpc, F: f + g, a + b); crosscheck('add', a + b, ref.padd(A, B, p), case)
                    add('sub', lambda f, g, mpc, F: f - g, a - b); crosscheck('sub', a - b, ref.psub(A, B, p), case)
                    add('mul', lambda f, g, mpc, F: f * g, a * b); crosscheck('mul', a * b, ref.pmul(A, B, p), case)
                    add('neg', lambda f, g, mpc, F: -f, -a)
                    add('pos', lambda f, g, mpc, F: +f, +a)
                    add('add_plain', lambda f, g, mpc, F: f + b, a + b)
                    add('radd_plain', lambda f, g, mpc, F: a + g, a + b)
                    add('rsub_plain', lambda f, g, mpc, F: a - g, a - b)
                    add('sub_plain', lambda f, g, mpc, F: f - b, a - b)
                    add('mul_plain', lambda f, g, mpc, F: f * b, a * b)
                    add('rmul_plain', lambda f, g, mpc, F: a * g, a * b)
                    add('copy', lambda f, g, mpc, F: f.copy(), a)
                    add('static_add', lambda f, g, mpc, F: secpoly.add(f, g), a + b)
                    add('static_sub', lambda f, g, mpc, F: secpoly.sub(f, g), a - b)
                    add('static_mul', lambda f, g, mpc, F: secpoly.mul(f, g), a * b)
                    add('degree', lambda f, g, mpc, F: f.degree(), a.degree(), 'scalar')
                    add('degree_prod', lambda f, g, mpc, F: (f * g).degree(), (a * b).degree(), 'scalar')
                    add('degree_zero', lambda f, g, mpc, F: (f * g - g * f).degree(), -1, 'scalar')
                    for i in (0, 1, 2, 5, 9):
                        add(f'getitem{i}', lambda f, g, mpc, F, i=i: f[i], int(a[i]) if i <= a.degree() else 0, 'scalar')
                    add('monic', lambda f, g, mpc, F: f.monic(), a.monic() if A else a)          # documented: the zero polynomial remains unchanged
                    if A:
                        crosscheck('monic', a.monic(), ref.pmonic(A, p), case)
                    add('pow3', lambda f, g, mpc, F: f ** 3, a * a * a)
                    add('pow0', lambda f, g, mpc, F: f ** 0, poly(1))
                elif fam == 'shift':
                    for k in (0, 1, 3):
                        add(f'lshift{k}', lambda f, g, mpc, F, k=k: f << k, a << k)
                        add(f'rshift{k}', lambda f, g, mpc, F, k=k: f >> k, a >> k)
                    add('reverse', lambda f, g, mpc, F: f.reverse(), a.reverse())
                    for d in (-1, 0, 2, la, la + 2, 10):
                        add(f'reverse{d}', lambda f, g, mpc, F, d=d: f.reverse(d), a.reverse(d))
                    d2 = rng.randrange(-1, max(la - 1, 0) + 1)
                    if la >= 1:
                        add(f'reverse_secint', lambda f, g, mpc, F: f.reverse(mpc.SecInt()(d2)), a.reverse(d2))
                    if la >= 3:
                        add(f'reverse_secfld', lambda f, g, mpc, F: f.reverse(F(2)), a.reverse(2))
                    for n in (0, 1, 2, la, la + 3):
                        add(f'truncate{n}', lambda f, g, mpc, F, n=n: f.truncate(n), a.truncate(n))
                elif fam == 'divmod':
                    if not B:
                        rec.count('skipped_zero_divisor')
                        continue
                    q_, r_ = divmod(a, b)
                    rq, rr = ref.pdivmod(A, B, p)
                    crosscheck('floordiv', q_, rq, case); crosscheck('mod', r_, rr, case)
                    add('floordiv', lambda f, g, mpc, F: f // g, q_)
                    add('mod', lambda f, g, mpc, F: f % g, r_)
                    add('divmod0', lambda f, g, mpc, F: divmod(f, g)[0], q_)
                    add('divmod1', lambda f, g, mpc, F: divmod(f, g)[1], r_)
                    add('rfloordiv_plain', lambda f, g, mpc, F: a // g, q_)
                    add('floordiv_plain', lambda f, g, mpc, F: f // b, q_)
                    add('rmod_plain', lambda f, g, mpc, F: a % g, r_)
                    add('mod_plain', lambda f, g, mpc, F: f % b, r_)
                    add('static_mod', lambda f, g, mpc, F: secpoly.mod(f, g), r_)
                    add('rdivmod_plain', lambda f, g, mpc, F: divmod(a, g)[1], r_)
                    add('self_div', lambda f, g, mpc, F: g // g, poly(1))
                    add('self_mod', lambda f, g, mpc, F: g % g, poly(0))
                elif fam == 'cmp':
                    ia, ib = ref.pint(A, p), ref.pint(B, p)        # lexicographic order = order of base-p integers
                    for name, fn, e in (('lt', lambda f, g: f < g, ia < ib), ('le', lambda f, g: f <= g, ia <= ib), ('gt', lambda f, g: f > g, ia > ib), ('ge', lambda f, g: f >= g, ia >= ib),
                                        ('eq', lambda f, g: f == g, ia == ib), ('ne', lambda f, g: f != g, ia != ib)):
                        add(name, lambda f, g, mpc, F, fn=fn: fn(f, g), int(e), 'scalar')
                        rec.count('oracle_crosschecks')
                        plain = {'lt': a < b, 'le': a <= b, 'gt': a > b, 'ge': a >= b, 'eq': a == b, 'ne': a != b}[name]
                        if bool(plain) != bool(e):
                            rec.violation(f'oracle disagreement on {name}', {'mechanism': 'oracle-disagreement', 'op': name}, {'case': case}, case=case)
                    add('eq_self', lambda f, g, mpc, F: f == f + (f * g - g * f), 1, 'scalar')
                    add('lt_plain', lambda f, g, mpc, F: f < b, int(ia < ib), 'scalar')
                    add('eq_plain', lambda f, g, mpc, F: f == b, int(ia == ib), 'scalar')
                elif fam == 'gcd':
                    if not A and not B:
                        d_ = poly(0)
                    d_ = poly.gcd(a, b)
                    crosscheck('gcd', d_, ref.pgcd(A, B, p), case)
                    add('gcd', lambda f, g, mpc, F: secpoly.gcd(f, g), d_)
                    ge = poly.gcdext(a, b)
                    for i in range(3):
                        add(f'gcdext{i}', lambda f, g, mpc, F, i=i: secpoly.gcdext(f, g)[i], ge[i])
                    if B and b.degree() >= 1:
                        add('powmod0', lambda f, g, mpc, F: secpoly.powmod(f, 0, g), poly.powmod(a, 0, b))
                        add('powmod1', lambda f, g, mpc, F: secpoly.powmod(f, 1, g), poly.powmod(a, 1, b))
                        add('powmod5', lambda f, g, mpc, F: secpoly.powmod(f, 5, g), poly.powmod(a, 5, b))
                        crosscheck('powmod5', poly.powmod(a, 5, b), ref.ppowmod(A, 5, B, p), case)
                        if d_ == 1:
                            add('invert', lambda f, g, mpc, F: secpoly.invert(f, g), poly.invert(a, b))
                            add('powmod-3', lambda f, g, mpc, F: secpoly.powmod(f, -3, g), poly.powmod(a, -3, b))
                elif fam == 'eval':
                    # the same public points and the same public length over a sibling prime first (one process, one secpoly class for all fields):
                    # evaluation is a function of the polynomial and the point, not of what was evaluated before
                    p2 = 31 if p != 31 else 101
                    poly2 = GFpX(p2)
                    a2 = poly2([c % p2 for c in ca])
                    for x in (3, p - 2, 2):
                        def sib(f, g, mpc, F, x=x):
                            F2 = mpc.SecFld(p2)
                            f2 = mpc.input(secpoly(np.array([c % p2 for c in ca] if mpc.pid == 0 else [0] * la, dtype=object), sectype=F2), senders=0)
                            return f2(x)
                        add(f'sibling_prime_call{x if x < 4 else "p-2"}', sib, int(a2(x)), f'scalar:{p2}')
                    add('call2', lambda f, g, mpc, F: f(2), int(a(2)), 'scalar')
                    for x in (0, 1, 3, p - 2):
                        add(f'call{x}', lambda f, g, mpc, F, x=x: f(x), int(a(x)), 'scalar')
                        crosscheck('eval', int(a(x)), ref.peval(A, x, p), case)
                    xs = rng.randrange(p)
                    add('call_secret', lambda f, g, mpc, F: f(mpc.input(F(xs), senders=0)), int(a(xs)), 'scalar')
                    if p <= 101 or la <= 4:
                        add('is_irreducible', lambda f, g, mpc, F: secpoly.is_irreducible(f), int(poly.is_irreducible(a)), 'scalar')
                        if p <= 101 and la <= 4:
                            crosscheck('is_irreducible', bool(poly.is_irreducible(a)), bool(len(A) >= 2 and ref.is_irreducible_bf(A, p)), case)
                elif fam == 'select':
                    for cb_ in (0, 1):
                        add(f'if_else{cb_}', lambda f, g, mpc, F, c=cb_: secpoly.if_else(mpc.input(F(c), senders=0), f, g), a if cb_ else b)
                        add(f'if_else_pub{cb_}', lambda f, g, mpc, F, c=cb_: secpoly.if_else(bool(c), f, g), a if cb_ else b)
                        add(f'if_swap{cb_}a', lambda f, g, mpc, F, c=cb_: secpoly.if_swap(mpc.input(F(c), senders=0), f, g)[0], b if cb_ else a)
                        add(f'if_swap{cb_}b', lambda f, g, mpc, F, c=cb_: secpoly.if_swap(mpc.input(F(c), senders=0), f, g)[1], a if cb_ else b)
            except ZeroDivisionError:
                rec.count('skipped_out_of_domain')
                continue

            async def program(mpc, pid, ops=ops):
                F = mpc.SecFld(p)
                f = mpc.input(secpoly(np.array(ca if pid == 0 else [0] * la, dtype=object), sectype=F), senders=0)
                g = mpc.input(secpoly(np.array(cb if pid == 0 else [0] * lb, dtype=object), sectype=F), senders=0)
                res = []
                for name, thunk, _, kind in ops:
                    r = thunk(f, g, mpc, F)
                    L = len(r.share) if isinstance(r, secpoly) else None
                    res.append((await mpc.output(r), L))
                return res

            def launch(ops_, seed, policy, budget):
                w = sim.World(m, t, no_prss, seed=seed, policy=policy).run(lambda mpc, pid: program(mpc, pid, ops_), max_steps=budget)
                MAXSTEPS[0] = max(MAXSTEPS[0], w.steps if w.status == 'DONE' else 0)
                return w
            skip_case = False
            for attempt in range(4):                     # a failing operation is reported and removed, the rest of the family is still checked
                wseed = rng.randrange(1 << 30)
                w = launch(ops, wseed, rng.choice(sim.POLICIES), 1_200_000)
                # budgets: complete families were measured at < 3e5 scheduler steps under every policy (side observations); a family that exhausts 1.2e6 steps is
                # searched for an operation that alone exhausts 4e5 steps (divergence); only if there is none is the family retried with 4e6 steps on the uniform scheduler
                if w.status == 'STEP-LIMIT':
                    rec.count('step_limit_retries')
                rec.count('worlds')
                if m > 1:
                    rec.count('multi_party_worlds')
                res = w.ok_results()
                if res is not None:
                    break
                errs = w.error_summaries()[:1]
                exc = (errs[0].split(':')[0].strip().split()[-1] if errs else str(w.status))
                if p == 11 and exc == 'AssertionError':
                    rec.count('skipped_small_p_assertion')
                    skip_case = True
                    break
                culprits = []
                for op1 in ops:                          # attribute to the operations that fail when run alone
                    w1 = launch([op1], 1, 'uniform', 400_000)
                    if w1.ok_results() is None:
                        e1 = w1.error_summaries()[:1]
                        culprits.append((op1, (e1[0].split(':')[0].strip().split()[-1] if e1 else str(w1.status)), e1))
                if not culprits and w.status == 'STEP-LIMIT':
                    w = launch(ops, wseed, 'uniform', 4_000_000)
                    res = w.ok_results()
                    if res is not None:
                        break
                for culprit in culprits or [None]:
                    rec.violation(f'{shard["name"]} {fam}: a={ca} b={cb}: run did not complete ({w.status}) {errs}; failing operation alone: {culprit and (culprit[0][0], culprit[1], culprit[2])}',
                                  dict(feats, mechanism='no-completion', exc=exc, op=culprit[0][0] if culprit else None, op_exc=culprit[1] if culprit else None), {'case': case}, case=case + ([culprit[0][0]] if culprit else []))
                if not culprits:
                    break
                ops = [o for o in ops if not any(o is c[0] for c in culprits)]
                if not ops:
                    break
            if skip_case:
                continue
            if res is not None:
                for pid, r in enumerate(res):
                    bad = None
                    for (name, _, expected, kind), (got, L) in zip(ops, r):
                        rec.count('values_compared')
                        if kind == 'poly':
                            okv = as_list(got) == as_list(expected if not isinstance(expected, int) else poly(expected))
                        else:
                            okv = (int(got) - int(expected)) % (int(kind.split(':')[1]) if ':' in kind else p) == 0
                        if not okv:
                            bad = bad or (name, got, expected)
                            extra_f = {}
                            if name in ('gcdext1', 'gcdext2'):
                                # Bezout cofactors are only unique for coprime operands: say whether the secure triple is at least a valid one
                                gd = {n_: g_ for (n_, _, _, _), (g_, _) in zip(ops, r)}
                                try:
                                    valid = all(k in gd for k in ('gcdext0', 'gcdext1', 'gcdext2')) and (gd['gcdext1'] * a + gd['gcdext2'] * b == gd['gcdext0']) and as_list(gd['gcdext0']) == as_list(poly.gcd(a, b))
                                except Exception:
                                    valid = False
                                extra_f = {'bezout_identity_holds': bool(valid), 'gcd_degree_ge_1': poly.gcd(a, b).degree() >= 1}
                            rec.violation(f'{shard["name"]} {fam}.{name}: a={ca} b={cb}: party {pid} obtained {got}, gfpx gives {expected}' + (f' (the secure triple satisfies s*a + t*b = gcd: {extra_f["bezout_identity_holds"]})' if extra_f else ''),
                                          dict(feats, mechanism='wrong-result', op=name, **extra_f), {'case': case}, case=case)
                        if L is not None and pid == 0:
                            lengths.setdefault((name, la, lb) + ((len(A), len(B)) if 'plain' in name else ()), {}).setdefault(L, [ca, cb])
                    if bad:
                        break
            rec.case(case, nontrivial=len(A) >= 2 and len(B) >= 2, sample={'p': p, 'config': shard['cfg'], 'family': fam, 'a': ca, 'b': cb} if ci == 0 and fam == 'divmod' else None)
    # ---- length monitor: the public length of a result is a function of the operand lengths
    for (name, la, lb, *_), d in lengths.items():
        rec.count('length_groups')
        if len(d) > 1:
            rec.violation(f'{shard["name"]}: result length of {name} for operand lengths ({la},{lb}) depends on the values: {d}', {'mechanism': 'length-depends-on-values', 'op': name}, {'lengths': {str(k): v for k, v in d.items()}},
                          case=[shard['name'], 'length', name, la, lb])
    rec.note_side(f'max scheduler steps of a completed world in {shard["name"]}: {MAXSTEPS[0]}')
