"""C14 — sharings dealt during protocols have full threshold degree."""
import sys
import math
import random
import collections

PROPERTY = 'C14'
ENGINE = 'SIM'
LEVEL = 'exploration'
TECHNIQUE = 'runtime dealing monitor: every thresha.random_split call made by any party during SIM runs is recorded with its caller, threshold argument, secrets, the random draws it made (seeded shim log) and the dealt share matrix; an independent oracle recovers each dealt polynomial'
RULE = ('case = one dealing (one secret of one random_split call) in a run of a program in a configuration with t >= 1; non-trivial = t >= 1; '
        'oracle: threshold argument = runtime threshold; t fresh randbelow(order) draws per secret; recovered polynomial has degree <= t with coefficients equal to the draws; '
        'coefficients of different secrets in a batch differ; top coefficient zero only at the rate 1/q; no frame carries the dealt secret in the clear (large fields)')
ASSUMPTIONS = ['dealer randomness flows through secrets.randbelow (checked: a dealing that draws nothing is reported)', 'statistical clauses use exact binomial tails at alpha = 1e-9']
REQUIRE = {'any': {'dealings_checked': 5000, 'calls_checked': 1000, 'extension_field_dealings': 200, 'batch_dealings_compared': 300}}
LEVEL_TEXT = 'exploration: secure integer / fixed-point / binary- and extension-field programs in configurations with t >= 1, PRSS on and off (without PRSS all protocol randomness is dealt)'
LEVEL_NOTE = 'trusted: vlib/oracles/ref.py, vlib/sim.py shim log'
TIMEOUT = {'quick': 1500, 'thorough': 12000}

from vlib.runner import config_name
Q_CONFIGS = [(3, 1, False), (3, 1, True), (4, 1, True), (5, 2, False), (5, 2, True), (5, 1, False), (7, 3, True), (6, 2, True), (3, 0, True), (5, 1, True)]


def shards(tier, seed):
    from vlib.runner import ALL_CONFIGS
    cfgs = Q_CONFIGS if tier == 'quick' else [c for c in ALL_CONFIGS if c[1] >= 1]
    return [{'name': config_name(c), 'cfg': list(c), 'programs': {3: 30, 4: 24, 5: 16, 6: 8, 7: 6}[c[0]] * (2 if tier == 'quick' else 8)} for c in cfgs]



def binom_tail_ge(n, k, p):
    """P[X >= k], X ~ Bin(n, p) (exact, small n*p)"""
    if k <= 0:
        return 1.0
    s = 0.0
    for i in range(k, min(n, k + 200) + 1):
        s += math.comb(n, i) * p ** i * (1 - p) ** (n - i)
    return s


def run(shard, rec):
    from vlib import env
    env.prepare()
    from vlib import sim, progs, fxprogs
    from vlib.oracles import ref
    ns = sim.install()
    thresha = ns.thresha
    m, t, no_prss = shard['cfg']
    rng = random.Random(f"c14/{shard['seed']}/{shard['name']}")
    orig_split = thresha.random_split
    deals = []
    shim = ns.shim

    def split(field, s, *a_, **k_):
        tt = k_['t'] if 't' in k_ else a_[0]
        mm = k_['m'] if 'm' in k_ else a_[1 if 't' not in k_ else 0]
        try:
            rt = sim.CUR.get()
            pid, thr = rt.pid, rt.threshold
        except Exception:
            pid, thr = None, None
        fr = sys._getframe(1)
        caller = fr.f_code.co_qualname
        n0 = len(shim.log)
        r = orig_split(field, s, *a_, **k_)
        draws = [d for d in shim.log[n0:] if d[0] == pid]
        deals.append({'pid': pid, 'caller': caller, 'field': field, 't': tt, 'm': mm, 'thr': thr, 'secrets': list(s), 'shares': r, 'draws': draws})
        return r
    thresha.random_split = split
    shim.log = []
    refF = {}
    topzero = collections.Counter()
    topn = collections.Counter()
    subfield_hits = collections.Counter()
    subfield_n = collections.Counter()

    def micro_ext(q_desc):
        async def program(mpc, pid):
            secfld = mpc.SecFld(**q_desc)
            q_ = q_desc['order']
            xs = [mpc.input(secfld((3 + i + pid) % q_), senders=i % len(mpc.parties)) for i in range(3)]
            ys = mpc.input([secfld((7 + pid) % q_), secfld(11 % q_), secfld(1)], senders=0)
            z = mpc.schur_prod(xs, ys)
            w_ = xs[0] * xs[1] + z[2]
            return [int(a) for a in await mpc.output(z + [w_])]
        return program

    for pi in range(shard['programs']):
        kind = ('int', 'ext', 'fxp', 'int', 'ext2', 'switch', 'small')[pi % 7]
        sseed = rng.randrange(1 << 30)
        policy = rng.choice(sim.POLICIES)
        case = [shard['name'], pi, kind, sseed]
        if not rec.wants(case):
            continue
        deals.clear()
        shim.log = []
        if kind == 'int':
            spec = progs.gen(rng, m, l=rng.choice([8, 16]), ops=progs.CHEAP, n_steps=(3, 6), features=False)
            program = progs.build(spec)
        elif kind == 'fxp':
            spec = fxprogs.gen(rng, m, l=16, f=8, ops=fxprogs.CHEAP, n_steps=(3, 6), features=False)
            program = fxprogs.build(spec)
        elif kind == 'switch':
            # threshold changed at run time through the public setter between two phases (effective without PRSS): dealings must follow the current threshold
            spec = {'values': [rng.randint(1, 9) for _ in range(4)]}
            program = progs.threshold_switch_program(tuple(spec['values']))[0]
        elif kind == 'small':
            # secure fields with no more elements than there are parties (the type must share over a larger field: party q would be handed f(q) = f(0))
            qs = [q_ for q_ in (2, 3, 5, 7) if q_ <= m]          # prime orders: lifting of extension fields such as GF(4) is refused by SecFld (documented TODO)
            spec = {'order': qs[(pi // 7) % len(qs)] if (pi // 7) % 3 else max(qs)}
            program = micro_ext(dict(spec))
        elif kind == 'ext':
            spec = {'order': 2 ** 8}
            program = micro_ext({'order': 2 ** 8})
        else:
            spec = {'order': 3 ** 4}
            program = micro_ext({'order': 3 ** 4})
        w = sim.World(m, t, no_prss, seed=sseed, policy=policy, history='auto', on_observed=lambda: (deals.clear(), shim.log.clear())).run(program)
        rec.count('programs_run')
        wit = {'kind': kind, 'spec': spec, 'policy': policy, 'sched_seed': sseed}
        if w.ok_results() is None:
            rec.violation(f'{shard["name"]} {kind} program {pi}: run did not complete {w.status} {w.error_summaries()[:1]}', {'mechanism': 'no-completion'}, wit, case=case)
            continue
        # frames per destination, to look for secrets in the clear
        payloads_to = collections.defaultdict(list)
        for (i, j) in w.conns:
            for lab, pl in w.frames(i, j)[0]:
                payloads_to[(i, j)].append(pl)
        t_cfg = t
        for d in deals:
            t = d['thr'] if d['thr'] is not None else t_cfg      # the threshold in force when the dealing was made (it can be changed at run time)
            field = d['field']
            fid = (int(field.characteristic), int(field.ext_deg), str(field.modulus))
            if fid not in refF:
                refF[fid] = ref.field_of(field)
            F = refF[fid]
            q = F.order
            n = len(d['secrets'])
            what = f'{shard["name"]} {kind} program {pi}: party {d["pid"]} dealing from {d["caller"]} ({n} secrets, GF({q}))'
            feats = {'caller': d['caller'], 'ext': F.d > 1}
            rec.count('calls_checked')
            if d['t'] != d['thr'] or d['m'] != m:
                rec.violation(f'{what}: random_split called with t={d["t"]}, m={d["m"]} but the runtime has threshold {d["thr"]}, {m} parties', dict(feats, mechanism='wrong-threshold-arg'), wit, case=case)
                continue
            if t >= 1 and q <= m:
                rec.violation(f'{what}: dealing over a field of {q} elements among {m} parties: the evaluation point of party {q} is 0, its share is the secret', dict(feats, mechanism='field-not-larger-than-m'), wit, case=case)
                continue
            if kind == 'small':
                rec.count('small_field_dealings')
            if q <= m:
                # t = 0: every share is the secret itself (nothing to hide from a coalition of nobody); the evaluation points need not be distinct
                rec.count('dealings_checked', n)
                for h in range(n):
                    sec = d['secrets'][h]
                    sv = ref.elt(F, sec if isinstance(sec, field) else field(sec))
                    if any(ref.elt(F, field(d['shares'][i][h])) != sv for i in range(m)):
                        rec.violation(f'{what}: threshold 0 but the shares of secret {h} are not all equal to it', dict(feats, mechanism='wrong-secret'), wit, case=case)
                continue
            draws = d['draws']
            draws_match = len(draws) == t * n and all(x[1] == 'randbelow' and x[2] == q for x in draws)
            if not draws_match:
                # another way of drawing the coefficients is not a violation by itself: fall back to the structural and statistical clauses
                rec.count('dealings_with_other_draw_pattern')
                rec.note_side(f'{what}: draw pattern is not {t * n} x randbelow({q}) (saw {len(draws)} draws, bounds {sorted({x[2] for x in draws})[:3]})')
                if not draws:
                    rec.violation(f'{what}: the dealing drew no randomness at all', dict(feats, mechanism='no-randomness'), wit, case=case)
                    continue
            polys = []
            for h in range(n):
                sh = [ref.elt(F, field(d['shares'][i][h])) for i in range(m)]
                coeffs = ref.interpolate(F, [(i + 1, sh[i]) for i in range(m)])
                deg = ref.poly_degree(F, coeffs)
                sec = d['secrets'][h]
                sec = ref.elt(F, sec if isinstance(sec, field) else field(sec))
                rec.count('dealings_checked')
                if F.d > 1:
                    rec.count('extension_field_dealings')
                if deg > t:
                    rec.violation(f'{what}: dealt polynomial {h} has degree {deg} > t={t}', dict(feats, mechanism='degree-too-high'), wit, case=case)
                    continue
                if coeffs[0] != sec:
                    rec.violation(f'{what}: dealt polynomial {h} has constant term {coeffs[0]}, secret is {sec}', dict(feats, mechanism='wrong-secret'), wit, case=case)
                # the t non-constant coefficients are exactly the fresh draws of this secret (in some order)
                mine = sorted(F.to_int(F.from_int(x[3])) for x in draws[h * t:(h + 1) * t]) if draws_match else None
                got = sorted(F.to_int(c) for c in (coeffs[1:t + 1] + [F.zero()] * t)[:t])
                if draws_match and mine != got:
                    rec.violation(f'{what}: coefficients of polynomial {h} are not the {t} values drawn for it', dict(feats, mechanism='coefficients-not-fresh-draws'), wit, case=case)
                polys.append(tuple(F.to_int(c) for c in (coeffs[1:t + 1] + [F.zero()] * t)[:t]))
                key = (q,)
                if t >= 1:
                    topn[key] += 1
                    if F.is_zero((coeffs + [F.zero()] * (t + 1))[t]):
                        topzero[key] += 1
                if F.d > 1:
                    for c in coeffs[1:t + 1]:
                        subfield_n[q] += 1
                        if F.to_int(c) < F.p:
                            subfield_hits[q] += 1
            # freshness across the secrets of one batch: equal coefficient vectors only by chance (q^-t)
            if n >= 2 and q ** t > 10 ** 6:
                rec.count('batch_dealings_compared')
                if len(set(polys)) < len(polys):
                    rec.violation(f'{what}: two secrets of one batch were dealt with the same random coefficients', dict(feats, mechanism='coefficients-reused-in-batch'), wit, case=case)
            # no party is sent the dealt secret itself (large fields only: chance 1/q otherwise)
            if q > 2 ** 20 and t >= 1:
                for h in range(n):
                    sec = d['secrets'][h]
                    sv = ref.elt(F, sec if isinstance(sec, field) else field(sec))
                    for j in range(m):
                        if j != d['pid'] and ref.elt(F, field(d['shares'][j][h])) == sv:
                            rec.violation(f'{what}: the share sent to party {j} for secret {h} equals the secret itself', dict(feats, mechanism='secret-in-clear'), wit, case=case)
        t = t_cfg
        rec.case(case, nontrivial=t >= 1, sample={'config': shard['name'], 'kind': kind, 'dealings': len(deals), 'callers': sorted({d['caller'] for d in deals})} if pi < 3 else None)
        for d in deals:
            rec.seen('dealing_callers', d['caller'])
    # rate of zero top coefficients and of prime-subfield coefficients over the whole shard (alpha = 1e-9)
    for key, n in topn.items():
        q = key[0]
        k = topzero[key]
        if binom_tail_ge(n, k, 1 / q) < 1e-9:
            rec.violation(f'{shard["name"]}: {k} of {n} dealt polynomials over GF({q}) have a zero top coefficient (expected rate 1/{q})',
                          {'mechanism': 'top-coefficient-zero-too-often'}, {'n': n, 'k': k, 'q': q}, case=[shard['name'], 'rate', q])
    for q, n in subfield_n.items():
        F_p = {256: 2, 81: 3}.get(q)
        if F_p and binom_tail_ge(n, subfield_hits[q], F_p / q) < 1e-9:
            rec.violation(f'{shard["name"]}: {subfield_hits[q]} of {n} dealt coefficients over GF({q}) lie in the prime subfield (expected rate {F_p}/{q})',
                          {'mechanism': 'coefficients-from-subfield'}, {'n': n, 'k': subfield_hits[q]}, case=[shard['name'], 'subfield', q])
    thresha.random_split = orig_split
    shim.log = None
