"""C10 — message framing tolerates any stream chunking and arrival order.

Real MessageExchanger objects (client and server side) attached to real Runtime objects; the harness
feeds the exact bytes produced by connection_made()+send() to the peer's data_received() in chosen
chunks, interleaved with receive(label) calls.  Oracle: sequential model label -> payload.
"""
import itertools
import random
import asyncio

PROPERTY = 'C10'
ENGINE = 'UNIT'
LEVEL = 'exploration'
TECHNIQUE = 'runtime monitor: real MessageExchanger pair fed enumerated/sampled chunkings and receive interleavings, checked against a sequential label->payload model'
RULE = ('case = (direction, handshake config or none, frame list, chunk cut positions, receive-before/after pattern); '
        'non-trivial = stream cut into >= 2 chunks or >= 1 receive issued before arrival; distinct by that tuple')
EXHAUSTIVE = 'all chunkings of every single-frame stream with payload 0..4 bytes (both directions); all <=2-cut chunkings of every handshake for all (m,t)<=7, all pid pairs'
ASSUMPTIONS = ['TCP delivers each direction as a reliable FIFO byte stream in arbitrary chunks',
               'labels within one connection are unique (that is property C09)']
REQUIRE = {'any': {'receives_before_arrival': 50, 'receives_after_arrival': 50, 'handshakes_checked': 20, 'chunks_fed': 1000}}
DESIGN_REF = '3/C10'
LEVEL_TEXT = ('exploration: exhaustive chunkings for short streams and handshakes, sampled long sessions; every feed runs the real '
              'protocol object and is judged by an independent sequential model')
LEVEL_NOTE = 'trusted: CPython asyncio.Future, struct; independent expectation of handshake length from (m,t,pids)'

CONFIGS = [(m, t) for m in range(2, 8) for t in range(0, (m + 1) // 2) if 2 * t < m]


def shards(tier, seed):
    out = []
    for prss in (True, False):
        out.append({'name': f'handshake-prss{int(prss)}', 'kind': 'handshake', 'prss': prss})
    out.append({'name': 'single-frame-exhaustive-c2s', 'kind': 'single', 'dir': 'c2s'})
    out.append({'name': 'single-frame-exhaustive-s2c', 'kind': 'single', 'dir': 's2c'})
    out.append({'name': 'bulk', 'kind': 'bulk', 'reps': 2 if tier == 'quick' else 8})
    nm = 4 if tier == 'quick' else 24
    for k in range(nm):
        out.append({'name': f'multi-{k}', 'kind': 'multi', 'k': k})
    ns = 6 if tier == 'quick' else 64
    for k in range(ns):
        out.append({'name': f'session-{k}', 'kind': 'session', 'k': k, 'frames': 40 if tier == 'quick' else 400})
    return out


class CapTransport:
    """Captures what the protocol writes.  Like asyncio's socket transports under back-pressure (no copy is made since Python 3.12), it keeps the
    *objects* written and reads them only when the bytes leave - here: when the harness reads .data, after all sends of a batch.  It also implements
    read flow control: while reading is paused the harness feeds nothing to the protocol."""

    def __init__(self):
        self.parts = []
        self.paused = False
        self.pauses = 0

    def write(self, b):
        self.parts.append(b)

    def writelines(self, l):
        self.parts.extend(l)

    @property
    def data(self):
        return b''.join(bytes(p) for p in self.parts)

    def pause_reading(self):
        self.paused = True
        self.pauses += 1

    def resume_reading(self):
        self.paused = False

    def is_reading(self):
        return not self.paused

    def get_write_buffer_size(self):
        return sum(len(p) for p in self.parts)

    def close(self):
        pass


def cuts_to_chunks(data, cuts):
    pos = [0] + list(cuts) + [len(data)]
    return [data[pos[i]:pos[i + 1]] for i in range(len(pos) - 1)]


class Pair:
    """A fresh client/server MessageExchanger pair between parties i<j of world w."""

    def __init__(self, w, i, j):
        from vlib import sim
        ns = sim.NS
        self.w, self.i, self.j = w, i, j
        self.rti, self.rtj = w.rts[i], w.rts[j]
        MX = ns.asyncoro.MessageExchanger
        for rt in (self.rti, self.rtj):
            for p in rt.parties:
                p.protocol = asyncio.Future(loop=rt._loop) if p.pid == rt.pid else None
        if not w.no_prss:
            for S in [S for S in self.rtj._prss_keys if S[0] != j]:
                del self.rtj._prss_keys[S]
        self.ct, self.st = CapTransport(), CapTransport()
        self.client = w.ctx[i].run(MX, self.rti, j)
        self.server = w.ctx[j].run(MX, self.rtj)
        w.ctx[j].run(self.server.connection_made, self.st)
        w.ctx[i].run(self.client.connection_made, self.ct)

    def keys_ok(self):
        """server learned exactly the client's keys for subsets led by the client and containing the server"""
        w = self.w
        if self.server.peer_pid != self.i:
            return f'server peer_pid={self.server.peer_pid} expected {self.i}'
        if w.no_prss:
            return None
        for S in itertools.combinations(range(w.m), w.m - w.t):
            if S[0] == self.i and self.j in S:
                if bytes(self.rtj._prss_keys.get(S, b'')) != bytes(self.rti._prss_keys[S]):
                    return f'key for {S} differs/missing at server'
            elif S[0] == self.i and S in self.rtj._prss_keys:
                return f'server holds key for {S} it is not a member of'
        return None


def feed_and_check(rec, proto, ctx, stream, chunks, frames, before, label_of_case, extra_check=None):
    """frames: list of (label, payload); before: set of frame indexes whose receive() is called before any byte arrives."""
    model = dict(frames)
    got = {}
    futs = {}
    for idx in before:
        lab = frames[idx][0]
        r = ctx.run(proto.receive, lab)
        if isinstance(r, asyncio.Future):
            futs[lab] = r
        else:
            rec.violation(f'receive({lab}) before arrival returned a payload', {'mechanism': 'early-payload'}, {'case': label_of_case}, case=label_of_case)
            return False
        rec.count('receives_before_arrival')
    for ch in chunks:
        ctx.run(proto.data_received, ch)
        rec.count('chunks_fed')
    for idx, (lab, payload) in enumerate(frames):
        if idx in before:
            f = futs[lab]
            if not f.done():
                rec.violation(f'receive-before-arrival future for label {lab} never resolved', {'mechanism': 'future-unresolved'},
                              {'case': label_of_case, 'chunks': [c.hex() for c in chunks][:20]}, case=label_of_case)
                return False
            got[lab] = f.result()
        else:
            r = ctx.run(proto.receive, lab)
            rec.count('receives_after_arrival')
            if isinstance(r, asyncio.Future):
                rec.violation(f'receive({lab}) after complete arrival did not return the payload', {'mechanism': 'late-miss'},
                              {'case': label_of_case, 'chunks': [c.hex() for c in chunks][:20]}, case=label_of_case)
                return False
            got[lab] = r
    for lab, payload in model.items():
        if bytes(got[lab]) != payload:
            rec.violation(f'label {lab}: delivered {bytes(got[lab])[:20].hex()} expected {payload[:20].hex()}', {'mechanism': 'wrong-payload'},
                          {'case': label_of_case, 'chunks': [c.hex() for c in chunks][:20]}, case=label_of_case)
            return False
    if proto.buffers or len(proto.bytes):
        rec.violation(f'leftover state after complete stream: buffers={len(proto.buffers)} bytes={len(proto.bytes)}', {'mechanism': 'leftover'},
                      {'case': label_of_case}, case=label_of_case)
        return False
    return True


def frame_bytes(sender_proto, ctx, transport, frames):
    start = len(transport.data)
    for lab, payload in frames:
        ctx.run(sender_proto.send, lab, payload)
    return bytes(transport.data[start:])


def run(shard, rec):
    from vlib import env
    env.prepare()
    from vlib import sim
    sim.install()
    kind = shard['kind']
    rng = random.Random(f"c10/{shard['seed']}/{shard['name']}")
    if kind == 'handshake':
        variants = [(m, t, None) for (m, t) in CONFIGS]
        # the same handshakes after the threshold of existing runtimes was changed through the public setter (the layout of the
        # key material depends on the threshold: nothing about it may be remembered from before the change)
        variants += [(m, t, tp) for (m, t) in CONFIGS if 2 <= m <= 5 for tp in range(0, (m + 1) // 2) if 2 * tp < m and tp != t]
        for (m, t, t_prev) in variants:
            w = sim.World(m, t if t_prev is None else t_prev, no_prss=not shard['prss'], seed=shard['seed'])
            if t_prev is not None:
                for i in range(m):                       # handshakes at the earlier threshold (fills whatever caches there are)
                    for j in range(i + 1, m):
                        p_ = Pair(w, i, j)
                        w.ctx[j].run(p_.server.data_received, bytes(p_.ct.data))
                for i in range(m):
                    w.ctx[i].run(setattr, w.rts[i], 'threshold', t)
                w.t = t
                rec.count('worlds_with_threshold_change')
            for i in range(m):
                for j in range(i + 1, m):
                    probe = Pair(w, i, j)
                    hs = bytes(probe.ct.data)
                    exp_len = w.handshake_len(i, j)
                    if len(hs) != exp_len:
                        rec.violation(f'handshake {i}->{j} (m={m},t={t}) is {len(hs)} bytes, expected {exp_len}',
                                      {'mechanism': 'handshake-length'}, {'m': m, 't': t, 'i': i, 'j': j}, case=[m, t, i, j, 'len'])
                    frames = [(rng.randrange(-2**63, 2**63), rng.randbytes(rng.randrange(0, 6))) for _ in range(2)]
                    n = len(hs)
                    # cut sets: dribble, none, every 1-cut, every 2-cut (1-cut only above 40 bytes)
                    cutsets = [tuple(range(1, n + 1))]
                    total_tail = None
                    onecuts = [(a,) for a in range(1, n + 1)]
                    twocuts = [(a, b) for a in range(1, n + 1) for b in range(a + 1, n + 2)] if n <= 40 else []
                    if t_prev is not None:
                        twocuts = []
                        onecuts = onecuts[::3]
                    for cuts in [()] + cutsets + onecuts + twocuts:
                        case = [m, t, int(shard['prss']), i, j, list(cuts) if len(cuts) < 6 else 'dribble'] + ([t_prev] if t_prev is not None else [])
                        if not rec.wants(case):
                            continue
                        # (a) the handshake alone, nothing following it yet: the peer must already be identified
                        p0 = Pair(w, i, j)
                        for ch in cuts_to_chunks(hs, [c for c in cuts if c < n]):
                            if ch:
                                w.ctx[j].run(p0.server.data_received, ch)
                        why = p0.keys_ok()
                        if why or p0.rtj.parties[i].protocol is not p0.server:
                            rec.violation(f'handshake alone {i}->{j} m={m} t={t} cuts={cuts[:4]}: {why or "protocol not registered"}',
                                          {'mechanism': 'handshake-alone'}, {'case': case}, case=case)
                        # (b) handshake followed by frames
                        p = Pair(w, i, j)
                        stream = bytes(p.ct.data) + frame_bytes(p.client, w.ctx[i], p.ct, frames)
                        cc = [c for c in cuts if c < len(stream)]
                        chunks = [c for c in cuts_to_chunks(stream, cc) if c]
                        before = {0} if rng.random() < 0.5 else set()
                        # receive before arrival is impossible on the server before the handshake identified the peer:
                        # the runtime reaches the protocol only via parties[peer].protocol, set by the handshake.
                        before = set()
                        ok = feed_and_check(rec, p.server, w.ctx[j], stream, chunks, frames, before, case)
                        if ok:
                            why = p.keys_ok()
                            if why:
                                rec.violation(f'handshake {i}->{j} m={m} t={t} cuts={cuts[:4]}: {why}', {'mechanism': 'handshake-keys'},
                                              {'case': case}, case=case)
                            elif not p.rtj.parties[i].protocol is p.server:
                                rec.violation(f'server did not register protocol for peer {i}', {'mechanism': 'handshake-register'}, {'case': case}, case=case)
                        rec.count('handshakes_checked')
                        rec.case(case, nontrivial=len(chunks) >= 2, sample={'m': m, 't': t, 'client': i, 'server': j, 'handshake_bytes': n, 'cuts': list(cuts)[:6]} if rng.random() < 0.001 else None)
        return
    w = sim.World(3, 1, no_prss=False, seed=shard['seed'])

    def endpoints(direction):
        p = Pair(w, 0, 1)
        if direction == 'c2s':
            # complete the handshake first, then test frames on the server side
            w.ctx[1].run(p.server.data_received, bytes(p.ct.data))
            return p, p.client, w.ctx[0], p.ct, p.server, w.ctx[1]
        w.ctx[1].run(p.server.data_received, bytes(p.ct.data))
        return p, p.server, w.ctx[1], p.st, p.client, w.ctx[0]

    if kind == 'single':
        labels = [0, -1, 1, 2**63 - 1, -2**63, 0x0102030405060708]
        for plen in range(0, 5):
            payload = bytes(range(65, 65 + plen))
            for li, lab in enumerate(labels if plen in (0, 4) else labels[:2]):
                n = 12 + plen
                for mask in range(1 << (n - 1)):
                    cuts = tuple(k + 1 for k in range(n - 1) if mask >> k & 1)
                    for bef in (0, 1):
                        if bef and (mask % 7) not in (0, 3):      # receive-before pattern on a 2/7 slice of chunkings
                            continue
                        case = [shard['dir'], plen, lab, mask, bef]
                        if not rec.wants(case):
                            continue
                        p, snd, sctx, str_, rcv, rctx = endpoints(shard['dir'])
                        frames = [(lab, payload)]
                        stream = frame_bytes(snd, sctx, str_, frames)
                        chunks = cuts_to_chunks(stream, cuts)
                        feed_and_check(rec, rcv, rctx, stream, chunks, frames, {0} if bef else set(), case)
                        rec.case(case, nontrivial=bool(mask) or bool(bef),
                                 sample={'dir': shard['dir'], 'label': lab, 'payload': payload.hex(), 'cuts': list(cuts), 'receive_before': bool(bef)} if mask == 37 and li == 0 else None)
        return
    if kind == 'multi':
        # 2-3 frames, all chunkings with <= 3 cuts + dribble, every receive-before/after pattern
        for rep in range(3):
            nfr = rng.choice([2, 3])
            frames = []
            labs = set()
            while len(frames) < nfr:
                lab = rng.choice([0, -1, 1, rng.randrange(-2**63, 2**63)])
                if lab in labs:
                    continue
                labs.add(lab)
                frames.append((lab, rng.randbytes(rng.choice([0, 0, 1, 2, 3]))))
            direction = rng.choice(['c2s', 's2c'])
            p, snd, sctx, str_, rcv, rctx = endpoints(direction)
            stream = frame_bytes(snd, sctx, str_, frames)
            n = len(stream)
            cutsets = [(), tuple(range(1, n))]
            cutsets += [(a,) for a in range(1, n)]
            cutsets += [(a, b) for a in range(1, n) for b in range(a + 1, n)]
            pos = list(range(1, n))
            cutsets += [tuple(sorted(rng.sample(pos, 3))) for _ in range(300)]
            for cuts in cutsets:
                for pat in range(1 << nfr):
                    case = [shard['k'], rep, direction, list(cuts) if len(cuts) < 5 else 'dribble', pat]
                    if not rec.wants(case):
                        continue
                    p, snd, sctx, str_, rcv, rctx = endpoints(direction)
                    stream2 = frame_bytes(snd, sctx, str_, frames)
                    assert stream2 == stream
                    before = {k for k in range(nfr) if pat >> k & 1}
                    feed_and_check(rec, rcv, rctx, stream, cuts_to_chunks(stream, cuts), frames, before, case)
                    rec.case(case, nontrivial=bool(cuts) or bool(before),
                             sample={'frames': [(l, b.hex()) for l, b in frames], 'cuts': list(cuts)[:8], 'before': sorted(before)} if rng.random() < 0.0005 else None)
        return
    if kind == 'bulk':
        # a sequential consumer that first awaits small messages sent *after* tens of MiB of other messages, then claims the large ones in another order;
        # the producer's writes are kept by reference until they leave; the harness honours pause_reading(): delivery is whatever the protocol lets through
        for rep in range(shard['reps']):
            direction = ['c2s', 's2c'][rep % 2]
            p, snd, sctx, str_, rcv, rctx = endpoints(direction)
            rtr = p.st if direction == 'c2s' else p.ct        # the receiving side's own transport (the one it would pause)
            big = [(1000 + k, rng.randbytes(1 << 20)) for k in range(20 + 4 * rep)]
            small = [(5, b'abc'), (6, b''), (-7, rng.randbytes(17))]
            frames = big + small
            stream = frame_bytes(snd, sctx, str_, frames)
            case = ['bulk', rep, direction]
            if not rec.wants(case):
                continue
            model = dict(frames)
            await_order = [l for l, _ in small] + [l for l, _ in reversed(big)]
            pos, step = 0, 1 << 18
            got = {}
            stuck = None
            for lab in await_order:
                r = rctx.run(rcv.receive, lab)
                rec.count('receives_before_arrival' if isinstance(r, asyncio.Future) else 'receives_after_arrival')
                while isinstance(r, asyncio.Future) and not r.done():
                    if pos >= len(stream):
                        stuck = f'label {lab}: the whole stream was delivered but the receive is still pending'
                        break
                    if rtr.paused:
                        stuck = (f'label {lab}: the consumer waits for a message that is still in the socket while the protocol has paused reading '
                                 f'({pos} of {len(stream)} bytes delivered): nothing can ever resume it')
                        break
                    rctx.run(rcv.data_received, stream[pos:pos + step])
                    rec.count('chunks_fed')
                    pos += step
                if stuck:
                    break
                got[lab] = r.result() if isinstance(r, asyncio.Future) else r
            rec.count('bulk_sessions')
            rec.count('bulk_bytes', len(stream))
            if stuck:
                rec.violation(f'bulk session {direction}: {stuck}', {'mechanism': 'future-unresolved'}, {'case': case}, case=case)
            else:
                for lab, pl in model.items():
                    if bytes(got[lab]) != pl:
                        rec.violation(f'bulk session {direction}: label {lab} delivered {len(got[lab])} bytes {bytes(got[lab])[:8].hex()}.., sent {len(pl)} bytes {pl[:8].hex()}..', {'mechanism': 'wrong-payload'}, {'case': case}, case=case)
                        break
                if rcv.buffers or len(rcv.bytes):
                    rec.violation('bulk session: leftover buffers/bytes', {'mechanism': 'leftover'}, {'case': case}, case=case)
            rec.case(case, nontrivial=True, sample={'direction': direction, 'frames': len(frames), 'stream_bytes': len(stream), 'await_order': await_order[:5]})
        return
    if kind == 'session':
        # long random sessions: receives interleaved with chunk arrivals at random
        for rep in range(4):
            nfr = shard['frames']
            direction = rng.choice(['c2s', 's2c'])
            p, snd, sctx, str_, rcv, rctx = endpoints(direction)
            frames = []
            labs = set()
            while len(frames) < nfr:
                lab = rng.choice([0, -1, 2**63 - 1, -2**63]) if rng.random() < 0.05 else rng.randrange(-2**63, 2**63)
                if lab in labs:
                    continue
                labs.add(lab)
                r = rng.random()
                size = 0 if r < 0.15 else (rng.randrange(1, 40) if r < 0.9 else rng.randrange(1000, 70000))
                frames.append((lab, rng.randbytes(size)))
            stream = frame_bytes(snd, sctx, str_, frames)
            case = [shard['k'], rep, direction]
            if not rec.wants(case):
                continue
            # interleave: events = chunk arrivals and receive calls in random order
            ends = []
            k = 0
            for lab, pl in frames:
                k += 12 + len(pl)
                ends.append(k)
            pos = 0
            order = list(range(nfr))
            rng.shuffle(order)
            oi = 0
            results = {}
            futs = {}
            style = rng.choice(['dribble', 'mixed', 'big'])
            while pos < len(stream) or oi < nfr:
                if oi < nfr and (pos >= len(stream) or rng.random() < 0.4):
                    idx = order[oi]
                    oi += 1
                    lab = frames[idx][0]
                    arrived = ends[idx] <= pos
                    r = rctx.run(rcv.receive, lab)
                    if isinstance(r, asyncio.Future):
                        if arrived:
                            rec.violation(f'receive({lab}) after arrival returned a Future', {'mechanism': 'late-miss'}, {'case': case}, case=case)
                        futs[idx] = r
                        rec.count('receives_before_arrival')
                    else:
                        if not arrived:
                            rec.violation(f'receive({lab}) returned payload before its frame fully arrived', {'mechanism': 'early-payload'}, {'case': case}, case=case)
                        results[idx] = r
                        rec.count('receives_after_arrival')
                else:
                    if style == 'dribble':
                        k = 1 if rng.random() < 0.9 else rng.randrange(1, 30)
                    elif style == 'big':
                        k = rng.randrange(1, 100000)
                    else:
                        k = rng.choice([1, 2, 11, 12, 13, rng.randrange(1, 200), rng.randrange(1, 5000)])
                    rctx.run(rcv.data_received, stream[pos:pos + k])
                    rec.count('chunks_fed')
                    pos += k
            bad = False
            for idx, (lab, pl) in enumerate(frames):
                if idx in futs:
                    f = futs[idx]
                    if not f.done():
                        rec.violation(f'session: future for label {lab} unresolved after full stream', {'mechanism': 'future-unresolved'}, {'case': case}, case=case)
                        bad = True
                        continue
                    results[idx] = f.result()
                if bytes(results[idx]) != pl:
                    rec.violation(f'session: label {lab} got wrong payload (len {len(results[idx])} vs {len(pl)})', {'mechanism': 'wrong-payload'}, {'case': case}, case=case)
                    bad = True
            if not bad and (rcv.buffers or len(rcv.bytes)):
                rec.violation('session: leftover buffers/bytes', {'mechanism': 'leftover'}, {'case': case}, case=case)
            rec.case(case, nontrivial=True, sample={'direction': direction, 'frames': nfr, 'stream_bytes': len(stream), 'style': style,
                                                    'first_labels': [f[0] for f in frames[:3]]})
        return
