"""C23 — polynomials over GF(p) form a ring with a correct division algorithm."""
import itertools
import random

PROPERTY = 'C23'
ENGINE = 'UNIT'
LEVEL = 'exploration'
TECHNIQUE = 'runtime oracle monitor on real gfpx operators/classmethods against an independent schoolbook polynomial implementation; laws as equalities between real results; p=2 integer representation cross-checked with the generic list algorithm'
RULE = ('case = (p, op, operand polynomials as integers); small p: all pairs up to a degree bound; large p: random; '
        'non-trivial = some operand of degree >= 1; distinct by (p, kind, operands)')
EXHAUSTIVE = 'all pairs of polynomials of degree <= 3 for p in {2,3} and degree <= 2 for p=5 (quick); degree <= 4/3 (thorough)'
ASSUMPTIONS = ['oracle polynomial arithmetic in vlib/oracles/ref.py (schoolbook)']
REQUIRE = {'any': {'pairs_checked': 3000, 'powmod_checked': 1000, 'gcd_checked': 3000}}
LEVEL_TEXT = 'exploration: exhaustive bounded-degree pairs over p=2,3,5, random degree <= 40 over p in {2,3,11,101,2^31-1}'
LEVEL_NOTE = 'trusted: vlib/oracles/ref.py'


def shards(tier, seed):
    deg = {2: 4, 3: 3, 5: 2} if tier == 'quick' else {2: 5, 3: 4, 5: 3}
    out = [{'name': f'exh-p{p}', 'p': p, 'mode': 'exh', 'deg': d} for p, d in deg.items()]
    for p in (2, 3, 11, 101, 2**31 - 1, 7):
        out.append({'name': f'rand-p{p}', 'p': p, 'mode': 'rand', 'n': 400 if tier == 'quick' else 8000})
    return out


def run(shard, rec):
    from vlib import env
    env.prepare()
    from mpyc import gfpx
    from vlib.oracles import ref as R
    p = shard['p']
    P = gfpx.GFpX(p)
    rng = random.Random(f"c23/{shard['seed']}/{shard['name']}")
    feats = {'p': 'two' if p == 2 else 'odd'}

    def L(x):
        """real polynomial -> oracle list, and invariant: canonical representation"""
        assert isinstance(x, P), f'result type {type(x).__name__}'
        l = list(x)
        assert not l or l[-1] != 0, 'leading zero coefficient'
        assert all(isinstance(c, int) and 0 <= c < p for c in l), 'coefficient out of range'
        return l

    def viol(what, op, case):
        rec.violation(f'p={p}: {what}', dict(feats, op=op), {'case': case}, case=case)

    def check_pair(ai, bi):
        case = [p, 'pair', str(ai), str(bi)]
        if not rec.wants(case):
            return
        a, b = P(ai), P(bi)
        la, lb = R.pfromint(ai, p), R.pfromint(bi, p)
        rec.count('pairs_checked')
        with rec.guard(f'p={p} pair ({ai},{bi})', case, dict(feats, op='pair-exception')):
            if L(a) != la or int(a) != ai:
                viol(f'P({ai}) is {L(a)}, int {int(a)}', 'from_int', case)
            for op, got, exp in (('add', a + b, R.padd(la, lb, p)), ('sub', a - b, R.psub(la, lb, p)), ('mul', a * b, R.pmul(la, lb, p)),
                                 ('neg', -a, R.psub([], la, p)), ('radd_int', bi + a, R.padd(la, lb, p)), ('rsub_int', bi - a, R.psub(lb, la, p)),
                                 ('mul_int', a * bi, R.pmul(la, lb, p)), ('add_cls', P.add(a, b), R.padd(la, lb, p)), ('mul_cls', P.mul(ai, b), R.pmul(la, lb, p))):
                if L(got) != exp:
                    viol(f'{ai} {op} {bi} = {L(got)} expected {exp}', op, case)
            if lb:
                q, r = divmod(a, b)
                eq, er = R.pdivmod(la, lb, p)
                if L(q) != eq or L(r) != er:
                    viol(f'divmod({ai},{bi}) = ({L(q)},{L(r)}) expected ({eq},{er})', 'divmod', case)
                if R.padd(R.pmul(L(q), lb, p), L(r), p) != la or not (len(L(r)) < len(lb)):
                    viol(f'divmod({ai},{bi}): a != q*b + r or deg r >= deg b', 'divmod', case)
                if L(a // b) != eq or L(a % b) != er or L(P.mod(a, b)) != er or [L(x) for x in P.divmod(a, b)] != [eq, er]:
                    viol(f'//, %, mod, divmod classmethod disagree for ({ai},{bi})', 'divmod-forms', case)
            else:
                for name, fn in (('divmod', lambda: divmod(a, b)), ('floordiv', lambda: a // b), ('mod', lambda: a % b)):
                    try:
                        fn()
                        viol(f'{name} by zero polynomial did not raise', name, case)
                    except ZeroDivisionError:
                        pass
            # gcd / gcdext
            g = P.gcd(a, b)
            eg = R.pgcd(la, lb, p)
            rec.count('gcd_checked')
            if L(g) != eg:
                viol(f'gcd({ai},{bi}) = {L(g)} expected {eg}', 'gcd', case)
            d, s, t = P.gcdext(a, b)
            if L(d) != eg or R.padd(R.pmul(L(s), la, p), R.pmul(L(t), lb, p), p) != eg:
                viol(f'gcdext({ai},{bi}): d={L(d)} s={L(s)} t={L(t)} does not satisfy s*a+t*b = gcd = {eg}', 'gcdext', case)
            # invert
            if lb and len(lb) > 1:
                if eg == [1]:
                    inv = P.invert(a, b)
                    if R.pdivmod(R.pmul(L(inv), la, p), lb, p)[1] != [1] or len(L(inv)) >= len(lb):
                        viol(f'invert({ai},{bi}) = {L(inv)} is not a reduced inverse', 'invert', case)
                else:
                    try:
                        inv = P.invert(a, b)
                        viol(f'invert({ai},{bi}) returned {L(inv)} although gcd = {eg}', 'invert', case)
                    except ZeroDivisionError:
                        pass
            # comparisons: order of the integer values (lexicographic from the leading coefficient), hashing
            for name, got, exp in (('lt', a < b, ai < bi), ('le', a <= b, ai <= bi), ('gt', a > b, ai > bi), ('ge', a >= b, ai >= bi),
                                   ('eq', a == b, ai == bi), ('ne', a != b, ai != bi)):
                if bool(got) != exp:
                    viol(f'{ai} {name} {bi} = {got}', 'cmp', case)
            if ai == bi and hash(a) != hash(b):
                viol('equal polynomials hash differently', 'hash', case)
            if bool(a) != bool(la):
                viol('bool wrong', 'bool', case)
        rec.case(case, nontrivial=len(la) > 1 or len(lb) > 1,
                 sample={'p': p, 'a': str(la[:8]), 'b': str(lb[:8]), 'gcd': str(eg[:8])} if rng.random() < 0.001 else None)

    def check_single(ai):
        case = [p, 'single', str(ai)]
        if not rec.wants(case):
            return
        a = P(ai)
        la = R.pfromint(ai, p)
        with rec.guard(f'p={p} single {ai}', case, dict(feats, op='single-exception')):
            if a.degree() != len(la) - 1:
                viol(f'degree({ai}) = {a.degree()}', 'degree', case)
            for x in (0, 1, 2, p - 1, p, -1, rng.randrange(p)):
                if a(x) != R.peval(la, x % p, p):
                    rec.violation(f'p={p}: evaluation of {ai} at {x}: {a(x)} expected {R.peval(la, x % p, p)}',
                                  dict(feats, op='eval', x_is_zero_mod_p=x % p == 0, got=a(x), constant_term=la[0] if la else 0), {'case': case}, case=case)
            for k in (0, 1, 2, 5):
                if L(a << k) != ([0] * k + la if la else []):
                    viol(f'{ai} << {k} wrong', 'lshift', case)
                if L(a >> k) != la[k:]:
                    viol(f'{ai} >> {k} wrong', 'rshift', case)
            ed = R.ptrim([(i * c) % p for i, c in enumerate(la)][1:])
            if L(a.deriv()) != ed:
                viol(f'deriv({ai}) = {L(a.deriv())} expected {ed}', 'deriv', case)
            if la:
                if L(a.monic()) != R.pmonic(la, p):
                    viol(f'monic({ai}) wrong', 'monic', case)
                if L(a.reverse()) != R.ptrim(la[::-1]):
                    viol(f'reverse({ai}) = {L(a.reverse())}', 'reverse', case)
            for i in range(len(la) + 2):
                if a[i] != (la[i] if i < len(la) else 0):
                    viol(f'coefficient {i} of {ai} wrong', 'getitem', case)
            for n in range(0, 5):
                e = [1]
                for _ in range(n):
                    e = R.pmul(e, la, p)
                if L(a ** n) != e:
                    viol(f'{ai} ** {n} wrong', 'pow', case)
            if L(P.from_terms(P.to_terms(a))) != la or L(P(repr(a))) != la:
                viol(f'terms round trip of {ai} fails', 'terms', case)
            if p == 2:
                # generic list algorithm (oracle) vs the integer representation: already used above; also int <-> list
                if int(a) != ai or list(a) != la:
                    viol('binary representation disagrees with list representation', 'binary-repr', case)
        rec.case(case, nontrivial=len(la) > 1)

    def check_powmod(ai, bi, n):
        case = [p, 'powmod', str(ai), str(bi), str(n)]
        if not rec.wants(case):
            return
        la, lb = R.pfromint(ai, p), R.pfromint(bi, p)
        if not lb:
            return
        rec.count('powmod_checked')
        f = dict(feats, op='powmod', n_class='0' if n == 0 else ('1' if n == 1 else ('neg' if n < 0 else 'ge2')),
                 base_reduced=len(la) < len(lb), modulus_unit=len(lb) == 1)
        with rec.guard(f'p={p} powmod({ai},{n},{bi})', case, dict(f, op='powmod-exception')):
            if n >= 0:
                exp = R.ppowmod(la, n, lb, p)
                got = L(P.powmod(ai, n, P(bi)))
                if got != exp:
                    rec.violation(f'p={p}: powmod({ai},{n},{bi}) = {got} expected {exp} (repeated multiplication mod b)', f, {'case': case}, case=case)
            else:
                if R.pgcd(la, lb, p) == [1] and len(lb) > 1:
                    got = L(P.powmod(ai, n, P(bi)))
                    inv = L(P.invert(ai, P(bi)))
                    exp = R.ppowmod(inv, -n, lb, p)
                    if got != exp:
                        rec.violation(f'p={p}: powmod({ai},{n},{bi}) = {got} expected {exp}', f, {'case': case}, case=case)
        rec.case(case, nontrivial=len(la) > 1)

    def check_laws(ai, bi, ci):
        case = [p, 'laws', str(ai), str(bi), str(ci)]
        if not rec.wants(case):
            return
        a, b, c = P(ai), P(bi), P(ci)
        rec.count('law_checks')
        for name, l, r in (('assoc_add', (a + b) + c, a + (b + c)), ('assoc_mul', (a * b) * c, a * (b * c)), ('comm_mul', a * b, b * a),
                           ('distrib', a * (b + c), a * b + a * c), ('sub', (a - b) + b, a), ('id', a * 1 + 0, a)):
            if l != r or list(l) != list(r):
                viol(f'ring law {name} fails for ({ai},{bi},{ci})', 'law_' + name, case)
        rec.case(case, nontrivial=max(ai, bi, ci) >= p)

    # polynomials of one prime keep working together whatever else the process does in between (150 other primes pass through GFpX)
    case = [p, 'history']
    if rec.wants(case):
        old_a, old_b = P(rng.randrange(p ** 3)), P(rng.randrange(1, p ** 2))
        cnt, n_ = 0, 200 + rng.randrange(300)
        while cnt < 150:
            n_ += 1
            if R.is_prime_td(n_) and n_ != p:
                gfpx.GFpX(n_)
                cnt += 1
        Pn = gfpx.GFpX(p)
        new_b = Pn(list(old_b))
        rec.count('class_history_checks')
        with rec.guard(f'p={p}: polynomials created before and after 150 other GFpX types', case, dict(feats, op='history')):
            if Pn is not P:
                viol('GFpX(p) returns another class after 150 other primes were used', 'history', case)
            r1 = [L_ for L_ in (list(old_a + new_b), list(old_a * new_b), list(old_a % new_b), list(P.gcd(old_a, new_b)))]
            r2 = [R.padd(list(old_a), list(old_b), p), R.pmul(list(old_a), list(old_b), p), R.pdivmod(list(old_a), list(old_b), p)[1], R.pgcd(list(old_a), list(old_b), p)]
            if r1 != r2 or not (new_b == old_b):
                viol('results of mixing polynomials created before and after differ from the reference', 'history', case)
        rec.case(case, nontrivial=True)
    if shard['mode'] == 'exh':
        N = p ** (shard['deg'] + 1)
        for ai in range(N):
            check_single(ai)
            for bi in range(N):
                check_pair(ai, bi)
        M = p ** 3
        for ai, bi, ci in itertools.product(range(M), repeat=3) if M <= 30 else [(rng.randrange(N), rng.randrange(N), rng.randrange(N)) for _ in range(4000)]:
            check_laws(ai, bi, ci)
        for ai in range(min(N, p ** 3)):
            for bi in range(1, min(N, p ** 3)):
                for n in (0, 1, 2, 3, 7, -1, -2):
                    check_powmod(ai, bi, n)
    else:
        def rp():
            d = rng.choice([0, 1, 2, 3, 5, 10, 40])
            return rng.randrange(p ** d, p ** (d + 1)) if rng.random() < 0.9 else rng.randrange(0, p + 1)
        for _ in range(shard['n']):
            ai, bi = rp(), rp()
            check_pair(ai, bi)
            if rng.random() < 0.3:
                check_pair(ai * bi, bi)          # forced common factor (as integers: not a product of polynomials, still fine)
            check_single(ai)
            check_laws(ai, bi, rp())
            check_powmod(ai, bi, rng.choice([0, 1, 2, 3, 17, 1000, p, -1, -3, rng.randrange(1 << 40)]))
