"""C06 — secure conversion between types preserves values."""
import random
import math
from fractions import Fraction as Fr

PROPERTY = 'C06'
ENGINE = 'SIM'
LEVEL = 'exploration'
TECHNIQUE = 'runtime monitoring: mpc.convert on scalars and lists for every ordered pair of secure types in a grid (secint, secfxp, prime secfld signed/unsigned), run by m real parties in every configuration; opened results compared with the exact value / neighbouring roundings'
RULE = ('case = (configuration, source type, target type, value list incl. range extremes of the narrower type); non-trivial = source and target types differ; '
        'distinct by (config, source, target, values)')
ASSUMPTIONS = ['values are chosen to fit the target type (the property\'s side condition)', 'signed and unsigned views of one prime field are process-global in mpyc, so distinct primes are used for signed and unsigned field types']
REQUIRE = {'any': {'conversions_checked': 2500, 'type_pairs_seen': 60}}
LEVEL_TEXT = 'exploration: 12 types x 12 types, boundary values, all configurations (quick: 9), PRSS on/off (the conversion mask is a sum over t+1 dealers or comb(m,t) PRSS subsets)'
LEVEL_NOTE = 'trusted: Python ints/Fractions'
TIMEOUT = {'quick': 1500, 'thorough': 12000}

from vlib.runner import config_name
TYPES = [('int', 8), ('int', 16), ('int', 32), ('int', 64), ('fxp', 16, 8), ('fxp', 32, 16), ('fxp', 24, 4), ('fxp', 64, 32),
         ('fld', 101, False), ('fld', 257, True), ('fld', 2**31 - 1, False), ('fld', 2**61 - 1, True), ('fld', 65537, False), ('fld', 2**89 - 1, True)]
Q_CONFIGS = [(1, 0, False), (2, 0, False), (3, 1, False), (3, 1, True), (4, 1, True), (5, 2, False), (5, 2, True), (7, 3, False), (7, 3, True)]


def shards(tier, seed):
    from vlib.runner import ALL_CONFIGS
    cfgs = Q_CONFIGS if tier == 'quick' else ALL_CONFIGS
    return [{'name': config_name(c), 'cfg': list(c), 'pairs': {1: 182, 2: 100, 3: 70, 4: 50, 5: 36, 6: 20, 7: 14}[c[0]] if tier == 'quick' else 182} for c in cfgs]


def trange(tp):
    """(lo, hi) inclusive range of representable whole numbers, fractional bits"""
    if tp[0] == 'int':
        return -(1 << (tp[1] - 1)), (1 << (tp[1] - 1)) - 1, 0
    if tp[0] == 'fxp':
        l, f = tp[1], tp[2]
        return -(1 << (l - f - 1)), (1 << (l - f - 1)) - 1, f
    p, signed = tp[1], tp[2]
    return (-(p // 2), p // 2, 0) if signed else (0, p - 1, 0)


def run(shard, rec):
    from vlib import env
    env.prepare()
    from vlib import sim
    sim.install()
    m, t, no_prss = shard['cfg']
    rng = random.Random(f"c06/{shard['seed']}/{shard['name']}")
    pairs = [(s, d) for s in TYPES for d in TYPES if s != d]
    rng.shuffle(pairs)
    pairs = pairs[:shard['pairs']]

    def mk_type(mpc, tp):
        if tp[0] == 'int':
            return mpc.SecInt(tp[1])
        if tp[0] == 'fxp':
            return mpc.SecFxp(tp[1], tp[2])
        return mpc.SecFld(tp[1], signed=tp[2])

    for (src, dst) in pairs:
        slo, shi, sf = trange(src)
        dlo, dhi, df = trange(dst)
        lo, hi = max(slo, dlo), min(shi, dhi)
        if src[0] == 'fld' and dst[0] == 'fld':
            # field -> field goes through the canonical integer representative of the source
            pass
        vals = []
        cand = [0, 1, -1, lo, hi, lo + 1, hi - 1, 2, -2, 100, -100, hi // 2, lo // 2]
        for v in cand + [rng.randint(lo, hi) for _ in range(6)]:
            if lo <= v <= hi and v not in vals:
                vals.append(v)
        fvals = []
        if src[0] == 'fxp':
            u = 1 << sf
            for v in vals[:8]:
                for frac in (0, 1, u // 2, u - 1, rng.randrange(u)):
                    x = Fr(v * u + frac, u)
                    if lo <= math.floor(x) and math.ceil(x) <= hi:
                        fvals.append(x)
            vals = list(dict.fromkeys(fvals))[:24]
        as_list = rng.random() < 0.6
        natural_marks = rng.random() < 0.5        # whole fixed-point inputs carry their integrality mark (same mark at every party), the others do not
        if src[0] == 'fxp' and natural_marks:
            rng.shuffle(vals)                     # whole and fractional values in any order within one list
        sseed = rng.randrange(1 << 30)
        policy = rng.choice(sim.POLICIES)
        case = [shard['name'], list(src), list(dst), [str(v) for v in vals[:30]], as_list, natural_marks]
        if not rec.wants(case):
            continue

        async def program(mpc, pid, src=src, dst=dst, vals=vals, as_list=as_list, natural_marks=natural_marks):
            S, D = mk_type(mpc, src), mk_type(mpc, dst)
            if src[0] == 'fxp':
                xs = [S(float(v) if pid == 0 else 0.0, integral=natural_marks and Fr(v).denominator == 1) for v in vals]
            else:
                xs = [S(int(v)) if pid == 0 else S(0) for v in vals]
            if src[0] == 'fxp' and natural_marks:
                xs = [mpc.input(x, senders=0) for x in xs]      # one by one: each secure number keeps its own integrality mark
            else:
                xs = mpc.input(xs, senders=0)
            if as_list:
                ys = mpc.convert(xs, D)
                if len(xs) >= 1:                      # the caller updates its own list right after the call: the values as passed are converted
                    xs[0] = xs[0] + xs[0] + 1
                    xs.reverse()
            else:
                ys = [mpc.convert(x, D) for x in xs]
            ok_type = all(isinstance(y, D) for y in ys)
            out = await mpc.output(ys, raw=True)
            return [int(a) for a in out], ok_type
        w = sim.World(m, t, no_prss, seed=sseed, policy=policy, history='auto').run(program, cpu_seconds=90)
        res = w.ok_results()
        what = f'{shard["name"]} convert {src} -> {dst} ({"list" if as_list else "scalars"})'
        wit = {'src': src, 'dst': dst, 'vals': [str(v) for v in vals], 'policy': policy, 'sched_seed': sseed}
        feats = {'src': src[0], 'dst': dst[0],
                 'src_field_wider_than_target_type': src[0] == 'fld' and dst[0] in ('int', 'fxp') and src[1].bit_length() > dst[1] - (dst[2] if dst[0] == 'fxp' else 0)}
        rec.seen('type_pairs', f'{src}->{dst}')
        if res is None:
            rec.violation(f'{what}: run did not complete {w.status} {[r for r in w.results() if r[0] == "EXC"][:1]} {w.error_summaries()[:1]}', dict(feats, mechanism='no-completion'), wit, case=case)
            continue
        if any(r != res[0] for r in res):
            rec.violation(f'{what}: parties obtained different results', dict(feats, mechanism='parties-disagree'), wit, case=case)
        out, ok_type = res[0]
        if not ok_type:
            rec.violation(f'{what}: result is not of the target type', dict(feats, mechanism='wrong-type'), wit, case=case)
        for v, got in zip(vals, out):
            rec.count('conversions_checked')
            # got = signed representative of the target's field element; in units of 2^-df for fixed-point targets
            if dst[0] == 'fld':
                p = dst[1]
                if src[0] == 'fxp':
                    allowed = {math.floor(v) % p, math.ceil(v) % p}
                else:
                    allowed = {int(v) % p}
                ok = got % p in allowed
                shown = got % p
            else:
                target_units = Fr(v) * (1 << df)
                if src[0] == 'fxp' and sf > df:
                    allowed = {math.floor(target_units), math.ceil(target_units)}      # rounds to a neighbouring representable value
                else:
                    allowed = {int(target_units)} if target_units.denominator == 1 else {math.floor(target_units), math.ceil(target_units)}
                ok = got in allowed
                shown = got
            if not ok:
                rec.violation(f'{what}: value {v} converts to {shown}{" units" if df else ""}, allowed {sorted(allowed)[:2]}', dict(feats, mechanism='wrong-value'), wit, case=case)
        rec.case(case, nontrivial=True, sample={'config': shard['name'], 'src': src, 'dst': dst, 'values': [str(v) for v in vals[:5]], 'results': [str(g) for g in out[:5]]} if rng.random() < 0.05 else None)
    rec.count('type_pairs_seen', len(pairs))
