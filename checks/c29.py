"""C29 — secure sorting and selection are correct for every input order."""
import random
import itertools

PROPERTY = 'C29'
ENGINE = 'SIM'
LEVEL = 'exploration'
TECHNIQUE = 'runtime oracle monitor: real mpc.sorted/min/max/min_max/argmin/argmax/seclist.sort run on all 0-1 vectors (0-1 principle realised on the real comparator network), all permutations of small lists, random lists with duplicates, keys and reverse; compared with Python sorted/min/max/index'
RULE = ('case = (function, input list, key, reverse, configuration); non-trivial = list length >= 3 and not already sorted; distinct by that tuple')
EXHAUSTIVE = 'all 2^n bit vectors for n <= 9 (quick) / n <= 11 (thorough) and all permutations for n <= 5 (6) through mpc.sorted at m=1; all 2^n bit vectors n <= 7 for argmin/argmax/min/max'
ASSUMPTIONS = ['Python sorted/min/max/list.index are the specification; ties: argmin/argmax return the first extreme index']
REQUIRE = {'any': {'sorted_checked': 1500, 'arg_checked': 500, 'minmax_checked': 500}}
LEVEL_TEXT = 'exploration: exhaustive 0-1 vectors and small permutations at m=1, random lists incl. duplicates/keys/reverse/records, SIM runs for n <= 8 in 4 configurations'
LEVEL_NOTE = 'trusted: Python builtins'
TIMEOUT = {'quick': 900, 'thorough': 10000}

from vlib.runner import config_name


def shards(tier, seed):
    nmax = 9 if tier == 'quick' else 11
    out = [{'name': f'bits-n{n}', 'kind': 'bits', 'n': n} for n in range(0, nmax + 1)]
    out.append({'name': 'perms', 'kind': 'perms', 'n': 5 if tier == 'quick' else 6})
    out += [{'name': f'random-{j}', 'kind': 'random', 'cases': 120 if tier == 'quick' else 1500} for j in range(3)]
    for c in [(2, 0, False), (3, 1, False), (3, 1, True), (5, 2, False)]:
        out.append({'name': config_name(c), 'kind': 'sim', 'cfg': list(c), 'cases': (12 if c[0] <= 3 else 5) * (1 if tier == 'quick' else 8)})
    return out


def run(shard, rec):
    from vlib import env
    env.prepare()
    from vlib import sim
    ns = sim.install()
    rng = random.Random(f"c29/{shard['seed']}/{shard['name']}")
    kind = shard['kind']
    mpc = ns.default_rt
    sim.CUR.set(mpc)
    secint = mpc.SecInt(16)
    out = lambda x: mpc.run(mpc.output(x))

    def check_sorted(xs, what, case, key=None, reverse=False, typ=None):
        T = typ or secint
        sx = [T(v) for v in xs]
        with rec.guard(what, case, {'fn': 'sorted', 'mechanism': 'exception'}):
            kw = {}
            if key is not None:
                kw['key'] = key[0]
            got = out(mpc.sorted(sx, reverse=reverse, **kw))
            exp = sorted(xs, key=key[1] if key else None, reverse=reverse)
            rec.count('sorted_checked')
            if key is None:
                okk = list(got) == exp
            else:
                # stable order of equal keys is not promised: compare key sequence and multiset
                okk = [key[1](v) for v in got] == [key[1](v) for v in exp] and sorted(got) == sorted(xs)
            if not okk:
                rec.violation(f'{what}: sorted({xs}{", reverse" if reverse else ""}{", key" if key else ""}) = {list(got)}, expected {exp}', {'fn': 'sorted', 'mechanism': 'wrong-result'}, {'case': case}, case=case)

    def check_select(xs, what, case):
        sx = [secint(v) for v in xs]
        with rec.guard(what, case, {'fn': 'select', 'mechanism': 'exception'}):
            mn, mx = out(mpc.min(sx)), out(mpc.max(sx))
            rec.count('minmax_checked')
            if mn != min(xs) or mx != max(xs):
                rec.violation(f'{what}: min/max of {xs} = {mn}/{mx}', {'fn': 'minmax', 'mechanism': 'wrong-result'}, {'case': case}, case=case)
            a, b = mpc.min_max(sx)
            if out(a) != min(xs) or out(b) != max(xs):
                rec.violation(f'{what}: min_max of {xs} = {out(a)}/{out(b)}', {'fn': 'min_max', 'mechanism': 'wrong-result'}, {'case': case}, case=case)
            i, v = mpc.argmin(sx)
            j, w_ = mpc.argmax(sx)
            i, v, j, w_ = out(i), out(v), out(j), out(w_)
            rec.count('arg_checked')
            if (i, v) != (xs.index(min(xs)), min(xs)):
                rec.violation(f'{what}: argmin({xs}) = ({i},{v}), first minimum is at {xs.index(min(xs))}', {'fn': 'argmin', 'mechanism': 'wrong-result'}, {'case': case}, case=case)
            if (j, w_) != (xs.index(max(xs)), max(xs)):
                rec.violation(f'{what}: argmax({xs}) = ({j},{w_}), first maximum is at {xs.index(max(xs))}', {'fn': 'argmax', 'mechanism': 'wrong-result'}, {'case': case}, case=case)

    if kind == 'bits':
        n = shard['n']
        for bits in itertools.product((0, 1), repeat=n):
            xs = list(bits)
            case = ['bits', xs]
            if not rec.wants(case):
                continue
            check_sorted(xs, f'm=1 0-1 vector n={n}', case)
            if n <= 7 and n >= 1:
                check_select(xs, f'm=1 0-1 vector n={n}', case)
            if n <= 6 and n >= 1:
                check_sorted(xs, f'm=1 0-1 vector n={n} reverse', case, reverse=True)
            rec.case(case, nontrivial=n >= 3 and xs != sorted(xs), sample={'fn': 'sorted', 'input': xs} if xs == [1, 0] * (n // 2) + [1] * (n % 2) else None)
        return
    if kind == 'perms':
        for n in range(1, shard['n'] + 1):
            for perm in itertools.permutations(range(n)):
                xs = [3 * v - 4 for v in perm]
                case = ['perm', xs]
                if not rec.wants(case):
                    continue
                check_sorted(xs, f'm=1 permutation n={n}', case)
                if n <= 5:
                    check_select(xs, f'm=1 permutation n={n}', case)
                rec.case(case, nontrivial=n >= 3 and xs != sorted(xs))
        return
    if kind == 'random':
        secfxp = mpc.SecFxp(16, 8)
        for ci in range(shard['cases']):
            n = rng.choice([1, 2, 3, 4, 5, 7, 8, 12, 16, 17, 25, 40]) if ci % 4 else rng.randint(1, 10)
            span = rng.choice([2, 5, 50, 1000])
            xs = [rng.randint(-span, span) for _ in range(n)]
            case = ['random', xs, ci % 6]
            if not rec.wants(case):
                continue
            what = f'm=1 random n={n}'
            variant = ci % 6
            if variant == 0:
                check_sorted(xs, what, case)
            elif variant == 1:
                check_sorted(xs, what, case, reverse=True)
            elif variant == 2 and n <= 12:
                check_sorted(xs, what, case, key=(lambda a: -a, lambda a: -a))
            elif variant == 3 and n <= 10:
                # records (lists) sorted by first component
                recs = [[v, k] for k, v in enumerate(xs)]
                srecs = [[secint(a), secint(b)] for a, b in recs]
                with rec.guard(what + ' records', case, {'fn': 'sorted-records', 'mechanism': 'exception'}):
                    got = [out(r) for r in mpc.sorted(srecs, key=lambda r: r[0])]
                    rec.count('sorted_checked')
                    if [g[0] for g in got] != sorted(xs) or sorted(map(tuple, got)) != sorted(map(tuple, recs)):
                        rec.violation(f'{what}: sorting records {recs} by first component gives {got}', {'fn': 'sorted-records', 'mechanism': 'wrong-result'}, {'case': case}, case=case)
            elif variant == 4 and n <= 12:
                sl = mpc.seclist([secint(v) for v in xs], secint)
                with rec.guard(what + ' seclist.sort', case, {'fn': 'seclist.sort', 'mechanism': 'exception'}):
                    sl.sort(reverse=bool(ci & 8))
                    got = out(list(sl))
                    rec.count('sorted_checked')
                    if got != sorted(xs, reverse=bool(ci & 8)):
                        rec.violation(f'{what}: seclist.sort gives {got}', {'fn': 'seclist.sort', 'mechanism': 'wrong-result'}, {'case': case}, case=case)
                    # sorting again after oblivious updates (secret index, unit vector, secret insert position): the order depends on the contents, not on the history
                    if n >= 2:
                        ref_l = list(got)
                        k1, k2 = rng.randrange(n), rng.randrange(n)
                        v1, v2, v3 = max(xs) + 5, min(xs) - 5, (max(xs) + min(xs)) // 2
                        sl[secint(k1)] = secint(v1)
                        ref_l[k1] = v1
                        sl[[secint(int(j == k2)) for j in range(n)]] = secint(v2)
                        ref_l[k2] = v2
                        sl.insert(secint(k1), secint(v3))
                        ref_l.insert(k1, v3)
                        sl.sort()
                        got2 = out(list(sl))
                        rec.count('sorted_checked')
                        rec.count('resorts_after_oblivious_updates')
                        if got2 != sorted(ref_l):
                            rec.violation(f'{what}: seclist sorted, updated obliviously, sorted again gives {got2}, expected {sorted(ref_l)}', {'fn': 'seclist.sort', 'mechanism': 'wrong-result-after-history'}, {'case': case}, case=case)
            else:
                fx = [v / 4 for v in xs if abs(v) < 400][:12] or [0.5]
                check_sorted(fx, what + ' secfxp', case, typ=secfxp)
                # fixed-point records [label, x, y] (whole-number label, fractional coordinates) ordered by a computed key x*x + y*y
                k_ = min(6, max(3, n))
                pts = []
                while len(pts) < k_:
                    cand = (rng.randrange(1, 60) / 10, rng.randrange(1, 60) / 10)
                    d2 = cand[0] ** 2 + cand[1] ** 2
                    if all(abs(d2 - (a * a + b * b)) > 0.5 for a, b in pts):
                        pts.append(cand)
                recs_ = [[secfxp(float(i)), secfxp(a), secfxp(b)] for i, (a, b) in enumerate(pts)]
                with rec.guard(what + ' secfxp records by computed key', case, {'fn': 'sorted-records-fxp', 'mechanism': 'exception'}):
                    srt = mpc.sorted(recs_, key=lambda r: r[1] * r[1] + r[2] * r[2])
                    got = [[float(v) for v in out(row)] for row in srt]
                    rec.count('sorted_checked')
                    rec.count('fxp_record_sorts')
                    order = sorted(range(k_), key=lambda i: pts[i][0] ** 2 + pts[i][1] ** 2)
                    exp_rows = [[float(i), pts[i][0], pts[i][1]] for i in order]
                    if len(got) != k_ or any(abs(g - e) > 0.01 for gr, er in zip(got, exp_rows) for g, e in zip(gr, er)):
                        rec.violation(f'{what}: records {[[i, a, b] for i, (a, b) in enumerate(pts)]} sorted by x*x+y*y give {got}, expected {exp_rows}',
                                      {'fn': 'sorted-records-fxp', 'mechanism': 'wrong-result'}, {'case': case}, case=case)
            if n <= 12:
                check_select(xs, what, case)
            rec.case(case, nontrivial=n >= 3 and xs != sorted(xs), sample={'fn': ['sorted', 'sorted-reverse', 'sorted-key', 'records', 'seclist.sort', 'secfxp'][variant], 'input': xs[:10]} if ci < 6 else None)
        return
    m, t, no_prss = shard['cfg']
    for ci in range(shard['cases']):
        n = rng.randint(2, 8)
        xs = [rng.randint(-9, 9) for _ in range(n)] if ci % 3 else [rng.randint(0, 1) for _ in range(n)]
        rev = bool(ci % 2)
        sseed = rng.randrange(1 << 30)
        case = [shard['name'], xs, rev]
        if not rec.wants(case):
            continue

        async def program(mpc, pid, xs=xs, rev=rev):
            secint = mpc.SecInt(16)
            sx = mpc.input([secint(v if pid == 0 else 0) for v in xs], senders=0)
            s = mpc.sorted(sx, reverse=rev)
            i, v = mpc.argmin(sx)
            j, w_ = mpc.argmax(sx)
            a, b = mpc.min_max(sx)
            # rows (lists of secure numbers) ordered by a key; afterwards the caller reuses its row buffers in place, as a batch loop would:
            # the results must be those of the rows as passed
            rows = [[sx[k], sx[k] * 2 + 1] for k in range(len(sx))]
            srows = mpc.sorted(rows, key=lambda r: r[0])
            mn, mx = mpc.min(rows, key=lambda r: r[0]), mpc.max(rows, key=lambda r: r[0])
            am = mpc.argmin(rows, key=lambda r: r[0])
            sx.reverse()
            for r_ in rows:
                r_[0], r_[1] = secint(99), secint(-99)
            return [await mpc.output(s), await mpc.output([i, v, j, w_, a, b]), [await mpc.output(r_) for r_ in srows], await mpc.output(mn), await mpc.output(mx), await mpc.output(am[0]), await mpc.output(am[1])]
        w = sim.World(m, t, no_prss, seed=sseed, policy=rng.choice(sim.POLICIES)).run(program)
        res = w.ok_results()
        what = f'{shard["name"]} n={n}'
        if res is None:
            rec.violation(f'{what}: run did not complete {w.status} {w.error_summaries()[:1]}', {'fn': 'sim', 'mechanism': 'no-completion'}, {'case': case}, case=case)
            continue
        rec.count('sorted_checked')
        rec.count('arg_checked')
        prow = [[v, 2 * v + 1] for v in xs]
        exp = [sorted(xs, reverse=rev), [xs.index(min(xs)), min(xs), xs.index(max(xs)), max(xs), min(xs), max(xs)],
               sorted(prow, key=lambda r: r[0]), min(prow, key=lambda r: r[0]), max(prow, key=lambda r: r[0]), xs.index(min(xs)), min(prow, key=lambda r: r[0])]
        rec.count('row_sorts_with_reused_buffers')
        for pid, r in enumerate(res):
            if r != exp:
                rec.violation(f'{what}: party {pid} obtained {r} for input {xs}, expected {exp}', {'fn': 'sim', 'mechanism': 'wrong-result'}, {'case': case}, case=case)
                break
        rec.case(case, nontrivial=n >= 3 and xs != sorted(xs), sample={'config': shard['name'], 'input': xs, 'reverse': rev} if ci == 0 else None)
