"""C03 — fixed-point integrality flags are never wrong."""
import random

PROPERTY = 'C03'
ENGINE = 'SIM'
LEVEL = 'exploration'
TECHNIQUE = 'runtime invariant monitor: a wrapper on SecureFixedPoint.__init__ keeps every instance constructed during a run (also library-internal ones); at quiescence every instance marked integral must hold a whole number (m=1: the share is the value; m>1: program-visible nodes are opened); plus the C02 numeric oracle on the same runs'
RULE = ('case = (configuration, program mixing integral and fractional operands); invariant evaluated on every SecureFixedPoint instance; '
        'non-trivial = the instance is marked integral and was produced by an operation (not a constant); distinct by (config, program, instance index)')
ASSUMPTIONS = ['flags supplied by the user at construction (secfxp(1.5, integral=True)) are outside the property; harness inputs carry truthful flags',
               'signed representative of the share is used for the whole-number test']
REQUIRE = {'any': {'instances_checked': 20000, 'integral_instances_checked': 4000, 'programs_run': 300}}
LEVEL_TEXT = 'exploration: DAG programs over all scalar and list operations, record sorting, seclist updates with secret indices, argmin/argmax, random bits; m=1 sees every internal instance, m>1 sees program nodes'
LEVEL_NOTE = 'trusted: the wrapper only records instances; vlib/fxprogs.py reference'
TIMEOUT = {'quick': 1500, 'thorough': 10000}

from vlib.runner import config_name


def shards(tier, seed):
    k = 2 if tier == 'quick' else 8
    out = [{'name': 'm1-dag-a', 'kind': 'm1', 'programs': 400 * k}, {'name': 'm1-dag-b', 'kind': 'm1', 'programs': 400 * k},
           {'name': 'm1-special', 'kind': 'special', 'reps': 40 * k}]
    for c in [(2, 0, False), (3, 1, False), (3, 1, True), (5, 2, False)]:
        out.append({'name': config_name(c), 'kind': 'sim', 'cfg': list(c), 'programs': (120 if c[0] <= 3 else 50) * k})
    return out


def run(shard, rec):
    from vlib import env
    env.prepare()
    from vlib import sim, fxprogs
    ns = sim.install()
    from mpyc import sectypes
    import asyncio
    rng = random.Random(f"c03/{shard['seed']}/{shard['name']}")
    SFP = sectypes.SecureFixedPoint
    instances = []
    orig_init = SFP.__init__

    def init(self, value=None, integral=None):
        orig_init(self, value, integral)
        instances.append(self)
    SFP.__init__ = init

    def check_instances(what, spec, case, n_inputs_const):
        """m=1: every instance's share is its value"""
        bad = 0
        for k, obj in enumerate(instances):
            sh = obj.share
            if isinstance(sh, asyncio.Future):
                if not sh.done() or sh.cancelled() or sh.exception() is not None:
                    rec.count('instances_unresolved')
                    continue
                sh = sh.result()
            rec.count('instances_checked')
            if obj.integral is True:
                rec.count('integral_instances_checked')
                f = type(obj).frac_length
                v = int(sh)                      # signed representative
                if v % (1 << f) != 0:
                    bad += 1
                    if bad <= 3:
                        rec.violation(f'{what}: SecureFixedPoint instance #{k} is marked integral but holds {v}/2^{f}', {'clause': 'integral-flag', 'where': 'instance'},
                                      {'spec': spec, 'instance': k}, case=case)
        return bad

    def report(what, spec, case):
        def on_violation(idx, op, clause, text, extra):
            feats = {'clause': clause, 'op': op}
            feats.update(extra)
            rec.violation(f'{what}: node {idx}: {text}', feats, {'spec': spec, 'node': idx}, case=case)
        return on_violation

    TYPES = [(8, 4), (16, 8), (32, 16), (12, 4)]
    kind = shard['kind']
    if kind == 'm1':
        for pi in range(shard['programs']):
            l, f = rng.choice(TYPES)
            ops = [o for o in fxprogs.ARITH if o not in ('div', 'recip', 'sin', 'cos')] if pi % 2 else fxprogs.CHEAP
            spec = fxprogs.gen(rng, 1, l=l, f=f, ops=ops, n_steps=(3, 9))
            case = [shard['name'], pi]
            if not rec.wants(case):
                continue
            instances.clear()
            w = sim.World(1, 0, seed=rng.randrange(1 << 30)).run(fxprogs.build(spec))
            rec.count('programs_run')
            res = w.ok_results()
            what = f'm=1 (l={l},f={f}) program {pi} {[s[0] for s in spec["steps"]]}'
            if res is None:
                rec.violation(f'{what}: run failed {w.status} {[r for r in w.results() if r[0] == "EXC"][:1]} {w.error_summaries()[:1]}', {'clause': 'exception'}, {'spec': spec}, case=case)
                continue
            check_instances(what, spec, case, len(spec['inputs']))
            units, flags = res[0]
            fxprogs.judge(spec, units, flags, report(what, spec, case))
            rec.case(case, nontrivial=any(fl is True for fl in flags[len(spec['inputs']):]),
                     sample={'type': [l, f], 'steps': [s[0] for s in spec['steps']], 'flags': flags, 'units': units[:10], 'instances': len(instances)} if pi < 2 else None)
        SFP.__init__ = orig_init
        return
    if kind == 'special':
        # library features that copy flags between elements: record sorting, seclists with secret indices, argmin/argmax, if_else on lists
        async def special(mpc, pid, r):
            secfxp = mpc.SecFxp(16, 8)
            vals = [r.choice([1.0, 2.0, 0.3, 0.7, 2.5, -1.0, 3.0, 0.0, 1.5]) for _ in range(6)]
            xs = [secfxp(v) for v in vals]
            out = []
            which = r.randrange(10)
            if which == 7:
                # lists with mixed integrality through input(), _reshare() and prod()
                ys = mpc.input(xs[:3], senders=0)
                zs = mpc._reshare(xs[3:6])
                out += [a * a for a in ys] + [a * xs[0] for a in zs] + [mpc.prod(xs[:3]), mpc.prod(xs[1:5]), mpc.prod([xs[0], xs[2], xs[4], xs[5]])]
            elif which == 8:
                # a condition reused after a list-form selection / swap keeps its value
                c = xs[0] < xs[1]
                b = mpc.if_swap(c, xs[0:2], xs[2:4])
                a = mpc.if_else(c, xs[2:4], xs[4:6])
                out += [c * xs[2], c * xs[3], mpc.if_swap(c, xs[4:6], xs[0:2])[0][0], c + c, b[0][0] + a[0]]
            elif which == 9:
                d = mpc.random.random_derangement(secfxp, xs[:4]) if hasattr(mpc, 'random') else xs[:4]
                out += [a * a for a in d]
                mpc.random.shuffle(secfxp, xs)
                out += [xs[0] * xs[1], xs[2] * xs[3]]
            elif which == 0:
                recs = [[xs[0], xs[1]], [xs[2], xs[3]], [xs[4], xs[5]]]
                s = mpc.sorted(recs, key=lambda a: a[0])
                out += [a * a for row in s for a in row]
            elif which == 1:
                sl = mpc.seclist(xs[:4], secfxp)
                i = secfxp(r.randrange(4))
                del sl[i]
                out += [a * a for a in list(sl)]
                sl.insert(secfxp(1), xs[4])
                out += [a * xs[5] for a in list(sl)]
            elif which == 2:
                i, mn = mpc.argmin(xs[:4])
                j, mx = mpc.argmax(xs[2:])
                out += [mn * mn, mx * mx, mn * mx]
            elif which == 3:
                c = xs[0] < xs[1]
                a = mpc.if_else(c, xs[2:4], xs[4:6])
                b = mpc.if_swap(c, xs[0:2], xs[2:4])
                out += [a[0] * a[1], b[0][0] * b[1][1], b[0][1] * b[1][0]]
            elif which == 4:
                mn, mx = mpc.min_max(xs[:5])
                out += [mn * mx, mpc.min(xs[1:4]) * mpc.max(xs[2:5])]
            elif which == 5:
                sl = mpc.seclist(xs[:5], secfxp)
                sl.sort()
                out += [sl[0] * sl[1], sl[secfxp(2)] * sl[3]]
                sl[secfxp(0)] = xs[5]
                out += [a * a for a in list(sl)[:2]]
            else:
                b = mpc.random_bits(secfxp, 3)
                out += [b[0] * xs[0], b[1] * b[2], mpc.sgn(xs[1]) * xs[2], abs(xs[3]) * xs[4]]
            opened = await mpc.output(out)
            return which, vals, opened
        for rep in range(shard['reps']):
            case = [shard['name'], rep]
            if not rec.wants(case):
                continue
            instances.clear()
            r = random.Random(rng.randrange(1 << 30))
            w = sim.World(1, 0, seed=rep).run(lambda mpc, pid: special(mpc, pid, r))
            rec.count('programs_run')
            res = w.ok_results()
            if res is None:
                rec.violation(f'special program {rep}: run failed {w.status} {[x for x in w.results() if x[0] == "EXC"][:1]}', {'clause': 'exception'}, {}, case=case)
                continue
            which, vals, opened = res[0]
            check_instances(f'special program kind {which} values {vals}', {'kind': which, 'vals': vals}, case, 6)
            for v in opened:
                if abs(v) > 100:
                    rec.violation(f'special program kind {which} values {vals}: product opened as {v} (garbage: a false integral mark was used)', {'clause': 'mul', 'where': 'special'},
                                  {'kind': which, 'vals': vals}, case=case)
            rec.case(case, nontrivial=True, sample={'kind': which, 'vals': vals, 'opened': opened} if rep < 2 else None)
        SFP.__init__ = orig_init
        return
    m, t, no_prss = shard['cfg']
    for pi in range(shard['programs']):
        l, f = rng.choice(TYPES)
        spec = fxprogs.gen(rng, m, l=l, f=f, ops=fxprogs.CHEAP, n_steps=(3, 7))
        case = [shard['name'], pi]
        if not rec.wants(case):
            continue
        instances.clear()
        w = sim.World(m, t, no_prss, seed=rng.randrange(1 << 30), policy=rng.choice(sim.POLICIES)).run(fxprogs.build(spec))
        rec.count('programs_run')
        res = w.ok_results()
        what = f'{shard["name"]} (l={l},f={f}) program {pi} {[s[0] for s in spec["steps"]]}'
        if res is None:
            rec.violation(f'{what}: run failed {w.status} {w.error_summaries()[:1]}', {'clause': 'exception'}, {'spec': spec}, case=case)
            continue
        units, flags = res[0]
        rec.count('instances_checked', len(flags))
        rec.count('integral_instances_checked', sum(1 for x in flags if x is True))
        fxprogs.judge(spec, units, flags, report(what, spec, case))
        for p in range(1, m):
            if res[p][1] != flags:
                rec.violation(f'{what}: parties disagree on integrality flags: {flags} vs {res[p][1]}', {'clause': 'integral-flag', 'where': 'agreement'}, {'spec': spec}, case=case)
        rec.case(case, nontrivial=any(fl is True for fl in flags[len(spec['inputs']):]))
    SFP.__init__ = orig_init
