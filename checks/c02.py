"""C02 — secure fixed-point arithmetic stays within its rounding bounds."""
import random

PROPERTY = 'C02'
ENGINE = 'SIM'
LEVEL = 'exploration'
TECHNIQUE = 'runtime monitoring with a local per-node oracle: every node of random fixed-point DAG programs is opened at all parties; each node is judged against the exact rational result of its operation on the values actually opened for its operands, with the bound the property states for that operation'
RULE = ('case = (configuration, (l,f) type, program, node); non-trivial = the node is a multiplication, division, float factor, power, sin/cos or truncation '
        '(operations that round); distinct by (config, type, program hash, node index)')
ASSUMPTIONS = ['bounds are the statement\'s own numbers, in exact rational arithmetic on the encoded inputs; sin/cos reference is math.sin/cos (error << 1 unit for f <= 32)',
               'integrality flags of inputs are program-level public knowledge (identical at all parties)']
REQUIRE = {'any': {'nodes_checked': 3000, 'rounding_nodes_checked': 800, 'programs_run': 150}}
LEVEL_TEXT = 'exploration over types (8,4),(12,4),(16,8),(24,8),(32,16),(64,32), all operation kinds incl. vector forms, configurations m=1 (sync and async) up to (7,3) with and without PRSS'
LEVEL_NOTE = 'trusted: vlib/fxprogs.py reference (Fractions), vlib/sim.py'
TIMEOUT = {'quick': 1500, 'thorough': 10000}

TYPES = [(8, 4), (12, 4), (16, 8), (24, 8), (32, 16), (64, 32)]
from vlib.runner import config_name
Q_CONFIGS = [(1, 0, False), (1, 0, True), (2, 0, False), (3, 1, False), (3, 1, True), (5, 2, False), (4, 1, True), (7, 3, False)]


def shards(tier, seed):
    from vlib.runner import ALL_CONFIGS
    cfgs = Q_CONFIGS if tier == 'quick' else ALL_CONFIGS
    out = []
    for c in cfgs:
        n = {1: 500, 2: 250, 3: 200, 4: 120, 5: 80, 6: 40, 7: 30}[c[0]]
        out.append({'name': config_name(c), 'cfg': list(c), 'programs': n if tier == 'quick' else n * 8})
    out.append({'name': 'sync-m1', 'kind': 'sync', 'programs': 500 if tier == 'quick' else 5000})
    out.append({'name': 'probe-division', 'kind': 'probe'})
    return out


def classify_and_report(rec, what, spec, case, cfgname):
    def on_violation(idx, op, clause, text, extra):
        feats = {'clause': clause, 'op': op}
        feats.update(extra)
        rec.violation(f'{what}: node {idx}: {text}', feats, {'spec': spec, 'node': idx}, case=case)
    return on_violation


ROUNDING = ('mul', 'sq', 'mul_float', 'div', 'recip', 'div_pub', 'pow', 'sin', 'cos', 'trunc', 'inprod', 'schur', 'scalar_mul', 'matprod', 'prod')


def run(shard, rec):
    from vlib import env
    env.prepare()
    from vlib import sim, fxprogs
    sim.install()
    rng = random.Random(f"c02/{shard['seed']}/{shard['name']}")
    kind = shard.get('kind')

    def count(op):
        rec.count('nodes_checked')
        if op in ROUNDING:
            rec.count('rounding_nodes_checked')
        rec.seen('ops', op)

    if kind == 'probe':
        # directed witnesses of the two known division mechanisms (F-C02-1, F-C02-2), kept demonstrable on every run
        for (l, f, num, den) in [(32, 16, 1.0, -3 / 2**16), (24, 8, 1.0, -1 / 2**8), (32, 16, 1.0, 5 / 2**16), (24, 8, 3.0, 2 / 2**8)]:
            spec = {'l': l, 'f': f, 'inputs': [[0, num, False], [0, den, False]], 'steps': [['div', [0, 1], None]], 'sleepy': None, 'barrier_at': None}
            case = ['probe', l, f, num, den]
            w = sim.World(1, 0, seed=1).run(fxprogs.build(spec))
            res = w.ok_results()
            if res is None:
                rec.violation(f'probe {case}: run failed {w.status} {w.error_summaries()[:1]}', {'clause': 'div', 'op': 'div', 'mechanism': 'exception'}, {'spec': spec}, case=case)
                continue
            units, flags = res[0]
            fxprogs.judge(spec, units, flags, classify_and_report(rec, f'probe (l={l},f={f}) {num}/{den}', spec, case, 'probe'), count)
            rec.case(case, nontrivial=True)
        return
    if kind == 'sync':
        # the default single-party runtime in no_async mode (what the repository's own tests use)
        import asyncio
        ns = sim.NS
        mpc = ns.default_rt
        sim.CUR.set(mpc)
        for pi in range(shard['programs']):
            l, f = rng.choice(TYPES)
            spec = fxprogs.gen(rng, 1, l=l, f=f, ops=fxprogs.ARITH if pi % 2 else fxprogs.CHEAP, n_steps=(3, 9))
            case = ['sync', pi]
            if not rec.wants(case):
                continue
            try:
                units, flags = mpc.run(fxprogs.build(spec)(mpc, 0))
            except Exception as e:
                rec.violation(f'sync program {pi}: raised {type(e).__name__}: {e}', {'clause': 'exception', 'op': 'program'}, {'spec': spec}, case=case)
                continue
            rec.count('programs_run')
            fxprogs.judge(spec, units, flags, classify_and_report(rec, f'sync m=1 (l={l},f={f}) program {pi}', spec, case, 'sync'), count)
            rec.case(case, nontrivial=any(s[0] in ROUNDING for s in spec['steps']),
                     sample={'config': 'm=1 no_async', 'type': [l, f], 'steps': [s[0] for s in spec['steps']], 'units': units[:8]} if pi < 2 else None)
        return
    m, t, no_prss = shard['cfg']
    for pi in range(shard['programs']):
        l, f = rng.choice(TYPES if m <= 3 else TYPES[:5])
        heavy = pi % 3 == 0
        spec = fxprogs.gen(rng, m, l=l, f=f, ops=fxprogs.ARITH if heavy else fxprogs.CHEAP, n_steps=(3, 6) if heavy or m > 3 else (3, 9))
        policy = rng.choice(sim.POLICIES)
        sseed = rng.randrange(1 << 30)
        case = [shard['name'], pi, policy, sseed]
        if not rec.wants(case):
            continue
        w = sim.World(m, t, no_prss, seed=sseed, policy=policy).run(fxprogs.build(spec))
        rec.count('programs_run')
        res = w.ok_results()
        what = f'{shard["name"]} (l={l},f={f}) program {pi}'
        if res is None:
            rec.violation(f'{what}: run did not complete: {w.status} {[r for r in w.results() if r[0] not in ("OK", "PENDING")][:1]} {w.error_summaries()[:1]}',
                          {'clause': 'exception', 'op': 'program'}, {'spec': spec, 'policy': policy, 'sched_seed': sseed}, case=case)
            continue
        if any(r != res[0] for r in res):
            rec.violation(f'{what}: parties obtained different values: {[r[0][:6] for r in res[:3]]}', {'clause': 'agreement', 'op': 'program'}, {'spec': spec}, case=case)
        units, flags = res[0]
        fxprogs.judge(spec, units, flags, classify_and_report(rec, what, spec, case, shard['name']), count)
        rec.case(case, nontrivial=any(s[0] in ROUNDING for s in spec['steps']),
                 sample={'config': shard['name'], 'type': [l, f], 'steps': [s[0] for s in spec['steps']], 'units': units[:8]} if pi < 1 else None)
