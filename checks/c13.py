"""C13 — any t Shamir shares reveal nothing: exact uniformity by enumerating the dealer's random tape.

thresha.secrets is replaced by an enumerating tape; the real random_split runs once per tape.  For every
coalition the table (share vector -> count) must be flat and identical for all secrets.
"""
import itertools
import collections
import random

PROPERTY = 'C13'
ENGINE = 'UNIT'
LEVEL = 'exploration'
TECHNIQUE = 'runtime monitor with enumerated randomness: every dealer tape of random_split executed on the real code, coalition share tables checked for exact uniformity'
RULE = ('case = (field, t, m, secret, dealer tape); non-trivial = every case (t>=1); distinct by that tuple; '
        'verdict per (field,t,m,coalition): each share vector occurs exactly q^(t-|C|) times for every secret')
EXHAUSTIVE = 'all dealer tapes (q^t <= 20000), all secrets, all coalitions of size t and 1, all m <= min(7,q-1), for field orders 2,3,4,5,7,8,9,11,16,25,27'
ASSUMPTIONS = ['the dealer draws its randomness only through secrets.randbelow (monitored: any other draw makes the shard fall back to a sampling test)']
REQUIRE = {'any': {'tapes_run': 5000, 'coalition_tables': 50}}
LEVEL_TEXT = 'exploration, exhaustive over the dealer randomness for small fields: exact (not statistical) uniformity of every coalition view'
LEVEL_NOTE = 'trusted: python ints/Counter; the enumerating tape is the only substitution'

FIELDS = [('p', 2), ('p', 3), ('x', 2, 'x^2+x+1'), ('p', 5), ('p', 7), ('x', 2, 'x^3+x+1'), ('x', 3, 'x^2+1'), ('p', 11),
          ('x', 2, 'x^4+x+1'), ('x', 5, 'x^2+2'), ('x', 3, 'x^3+2x+1'), ('p', 13), ('p', 17)]


def shards(tier, seed):
    lim = 3000 if tier == 'quick' else 20000
    out = [{'name': f'field-{i}', 'field': list(f), 'limit': lim} for i, f in enumerate(FIELDS)]
    # the dealings the runtime actually makes (threshold in force at the time of the dealing, also after it was changed at run time):
    # dealing monitor of C14 - a dealt polynomial of degree below the threshold in force means fewer than t+1 shares determine the secret
    for cfg in ((3, 0, True), (5, 1, True), (3, 1, True), (5, 2, False)):
        out.append({'name': f'runtime-m{cfg[0]}t{cfg[1]}{"np" if cfg[2] else "prss"}', 'kind': 'runtime', 'cfg': list(cfg), 'programs': 24 if tier == 'quick' else 120})
    return out


class Tape:
    def __init__(self):
        self.vals = ()
        self.pos = 0
        self.bounds = []
        self.other = 0

    def load(self, vals):
        self.vals = vals
        self.pos = 0
        self.bounds = []

    def randbelow(self, n):
        self.bounds.append(n)
        if self.pos >= len(self.vals):
            raise IndexError('tape exhausted')
        v = self.vals[self.pos]
        self.pos += 1
        if v >= n:
            raise IndexError('tape value out of requested range')
        return v

    def randbits(self, k):
        self.other += 1
        raise IndexError('unexpected randbits')

    def token_bytes(self, k=32):
        self.other += 1
        raise IndexError('unexpected token_bytes')


def run(shard, rec):
    if shard.get('kind') == 'runtime':
        from checks import c14
        rec.count('runtime_dealing_shards')
        return c14.run(shard, rec)
    from vlib import env
    env.prepare()
    from mpyc import thresha
    from checks.c12 import make_field
    from vlib.oracles import ref
    field = make_field(shard['field'])
    F = ref.field_of(field)
    q = F.order
    fname = repr(shard['field'])
    tape = Tape()
    real_secrets = thresha.secrets
    thresha.secrets = tape
    rng = random.Random(f"c13/{shard['seed']}/{fname}")
    for m in range(2, min(7, q - 1) + 1):
        for t in range(1, m):
            if q ** t > shard['limit']:
                continue
            nsec = 2 if q ** (2 * t) <= shard['limit'] and (m + t) % 2 == 0 else 1      # also two secrets per call: draws must be independent per secret
            coalitions = sorted(set(itertools.combinations(range(m), t)) | {(i,) for i in range(m)})
            if len(coalitions) > 40:
                coalitions = rng.sample(coalitions, 40)
            ndraw = t * nsec
            tables = {}
            fallback = False
            secrets_list = list(itertools.product(range(q), repeat=nsec)) if nsec == 1 or q <= 5 else [(a, rng.randrange(q)) for a in range(q)]
            for sv in secrets_list:
                tab = {C: collections.Counter() for C in coalitions}
                for vals in itertools.product(range(q), repeat=ndraw):
                    tape.load(vals)
                    try:
                        sh = thresha.random_split(field, [field(v) for v in sv], t, m)
                    except IndexError:
                        fallback = True
                        break
                    rec.count('tapes_run')
                    if tape.pos != ndraw or any(b != q for b in tape.bounds):
                        fallback = True
                        break
                    for C in coalitions:
                        tab[C][tuple(int(sh[i][h]) for i in C for h in range(nsec))] += 1
                if fallback:
                    break
                tables[sv] = tab
                rec.case([fname, t, m, sv], nontrivial=True,
                         sample={'field': fname, 't': t, 'm': m, 'secrets': sv, 'tapes': q ** ndraw, 'coalitions': len(coalitions)} if sv == secrets_list[-1] and t == 1 and m == 3 else None)
            if fallback:
                rec.count('fallback_configs')
                # the implementation no longer draws t x randbelow(order) per secret: exactness is lost, sample instead
                thresha.secrets = real_secrets
                bad = sampling_test(thresha, field, q, t, m, rec, fname)
                thresha.secrets = tape
                rec.note_side(f'{fname} t={t} m={m}: dealer draw pattern is not t x randbelow(order) per secret (bounds seen {tape.bounds[:6]}); fell back to sampling')
                continue
            for C in coalitions:
                rec.count('coalition_tables')
                expect = q ** (ndraw - len(C) * nsec)
                for sv, tab in tables.items():
                    cnt = tab[C]
                    if len(cnt) != q ** (len(C) * nsec) or set(cnt.values()) != {expect}:
                        rec.violation(f'{fname} t={t} m={m} coalition {C} secret {sv}: {len(cnt)} distinct share vectors (of {q ** (len(C) * nsec)}), counts {sorted(set(cnt.values()))[:5]} (uniform would be {expect} each)',
                                      {'mechanism': 'coalition-view-not-uniform'}, {'field': fname, 't': t, 'm': m, 'coalition': C, 'secret': sv,
                                                                                  'table': sorted(cnt.items())[:12]}, case=[fname, t, m, sv])
                        break
    thresha.secrets = real_secrets


def sampling_test(thresha, field, q, t, m, rec, fname):
    """chi-square on coalition views with OS randomness (only used when the tape cannot drive the dealer)."""
    import math
    C = tuple(range(t))
    cells = q ** t
    if cells > 4096:
        rec.inconclusive_because(f'{fname} t={t} m={m}: fallback sampling infeasible ({cells} cells)')
        return
    N = 200 * cells
    for s in (0, q - 1):
        cnt = collections.Counter()
        for _ in range(N):
            sh = thresha.random_split(field, [field(s)], t, m)
            cnt[tuple(int(sh[i][0]) for i in C)] += 1
            rec.count('sampled_runs')
        e = N / cells
        chi = sum((cnt.get(v, 0) - e) ** 2 / e for v in itertools.product(range(q), repeat=t))
        df = cells - 1
        if chi > df + 12 * math.sqrt(2 * df) + 40:
            rec.violation(f'{fname} t={t} m={m} secret {s}: coalition {C} view not uniform (chi2={chi:.0f}, df={df}, N={N})',
                          {'mechanism': 'coalition-view-not-uniform'}, {'chi2': chi, 'df': df}, case=[fname, t, m, [s]])
        rec.case([fname, t, m, s, 'sampled'], nontrivial=True)
        rec.count('coalition_tables')
