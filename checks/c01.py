"""C01 — secure integer operations are exact in every party configuration."""
import random
import math
import itertools

PROPERTY = 'C01'
ENGINE = 'SIM'
LEVEL = 'exploration'
TECHNIQUE = 'runtime monitoring: random typed DAG programs over all secure-integer operations run by m real parties (every configuration, scheduler policies rotated), every party\'s outputs compared with a Python int interpreter; plus exhaustive operand enumeration for tiny bit lengths at m=1'
RULE = ('case = (configuration, bit length, program, inputs); programs are kept only if every intermediate value of the reference stays within l bits (the property\'s side condition); '
        'non-trivial = the program contains a multiplication/comparison-class operation and, for m>1, messages were exchanged; distinct by (config, program hash)')
EXHAUSTIVE = 'm=1: all operand pairs of l-bit values for l in {1,2,3,4} (l=4 sampled 50% in quick) for every unary/binary operation'
ASSUMPTIONS = ['reference = Python integer arithmetic', 'public divisors: b >= 1 decided; negative b is a separate input class (probe)']
REQUIRE = {'any': {'programs_run': 300, 'outputs_compared': 1500, 'exhaustive_cases': 3000}}
LEVEL_TEXT = 'exploration: all 16 (m,t) configurations x PRSS on/off (quick: 10 of them), l in {4,8,16,32,61,64}, all operations of the statement incl. gcd family; exhaustive tiny-l operand pairs at m=1'
LEVEL_NOTE = 'trusted: vlib/progs.py reference interpreter, vlib/sim.py'
TIMEOUT = {'quick': 1500, 'thorough': 12000}

from vlib.runner import config_name
Q_CONFIGS = [(1, 0, False), (2, 0, False), (3, 1, False), (3, 1, True), (4, 1, False), (5, 2, False), (5, 2, True), (6, 2, False), (7, 3, False), (7, 3, True), (7, 2, False)]


def shards(tier, seed):
    from vlib.runner import ALL_CONFIGS
    cfgs = Q_CONFIGS if tier == 'quick' else ALL_CONFIGS
    out = []
    for c in cfgs:
        n = {1: 150, 2: 80, 3: 60, 4: 40, 5: 30, 6: 16, 7: 12}[c[0]]
        out.append({'name': config_name(c), 'kind': 'sim', 'cfg': list(c), 'programs': n if tier == 'quick' else n * 8})
    for l in (1, 2, 3, 4):
        out.append({'name': f'exhaustive-l{l}', 'kind': 'exh', 'l': l, 'frac': 1.0 if (l < 4 or tier == 'thorough') else 0.5})
    out.append({'name': 'probe-negative-divisor', 'kind': 'probe'})
    return out


UNARY = ['neg', 'sgn', 'abs', 'lsb', 'sq', 'eqz', 'iszero_pub']
BINARY = ['add', 'sub', 'mul', 'lt', 'le', 'eq', 'ne', 'ge', 'gt', 'min2', 'max2', 'eq_pub', 'gcd', 'lcm', 'gcdext_g', 'gcdext_bez']
CONST = ['pow', 'floordiv', 'mod', 'divmod0', 'divmod1', 'rshift', 'lshift', 'addc', 'mulc', 'rsubc']


def run(shard, rec):
    from vlib import env
    env.prepare()
    from vlib import sim, progs
    sim.install()
    rng = random.Random(f"c01/{shard['seed']}/{shard['name']}")
    kind = shard['kind']
    if kind == 'probe':
        # negative public divisors: a separate input class, reported per class
        for (l, a, b) in [(4, -8, -3), (8, 100, -7), (8, -100, -7), (16, 5, -2)]:
            for op in ('mod', 'floordiv'):
                spec = {'l': l, 'inputs': [[0, a]], 'steps': [[op, [0], b]], 'outs': [[1]], 'barrier_at': None, 'await_twice': False, 'early_await': None, 'sleepy': None}
                case = ['probe', l, a, b, op]
                w = sim.World(1, 0, seed=1).run(progs.build(spec))
                res = w.ok_results()
                exp = progs.expected_outputs(spec)
                rec.count('programs_run')
                if res is None or res[0] != exp:
                    rec.violation(f'secint{l}({a}) {op} public {b}: obtained {res[0] if res else w.status}, Python gives {exp}', {'mechanism': 'wrong-output', 'op': op, 'divisor_negative': True},
                                  {'spec': spec}, case=case)
                rec.case(case, nontrivial=True)
        return
    if kind == 'exh':
        l = shard['l']
        lim = 1 << (l - 1)
        vals = list(range(-lim, lim))
        ns = sim.NS
        mpc = ns.default_rt
        sim.CUR.set(mpc)
        secint = mpc.SecInt(l)

        async def nested(x, y, z):
            return x * y + z

        def run1(op, av, c):
            xs = [secint(v) for v in av]
            r = progs.apply_op(mpc, secint, op, xs, c, nested)
            if op in progs.PUBLIC_OPS:
                return int(mpc.run(r))
            return int(mpc.run(mpc.output(r)))
        todo = [(op, (a,), None) for op in UNARY for a in vals]
        todo += [(op, (a, b), None) for op in BINARY for a in vals for b in vals]
        for op in CONST:
            cs = {'pow': [0, 1, 2, 3], 'rshift': [0, 1, 2], 'lshift': [0, 1, 2], 'addc': [0, 1, -1], 'mulc': [0, 1, -1, 2], 'rsubc': [0, 1, -1]}.get(op, [1, 2, 3, 5, lim - 1] if lim > 1 else [1])
            todo += [(op, (a,), c) for a in vals for c in cs if c >= 1 or op not in ('floordiv', 'mod', 'divmod0', 'divmod1')]
        todo += [('ifelse', (a, b, c), None) for a in vals for b in vals for c in vals] if l <= 3 else [('ifelse', (a, b, c), None) for a in vals[::3] for b in vals[::2] for c in vals[::3]]
        for op, av, c in todo:
            if shard['frac'] < 1 and rng.random() > shard['frac']:
                continue
            case = [l, op, list(av), c]
            if not rec.wants(case):
                continue
            try:
                e = progs.ref_op(op, list(av), c)
            except (ZeroDivisionError, ValueError):
                continue
            inter = [e]
            if op in ('sub', 'lt', 'le', 'ge', 'gt', 'min2', 'max2', 'eq', 'ne', 'eq_pub', 'ifelse'):
                inter += [x - y for x in av for y in av]
            if op in ('abs', 'sgn', 'neg'):
                inter.append(-av[0])
            if op in ('lcm', 'gcdext_bez', 'gcd', 'gcdext_g'):
                inter += [av[0] * av[1], -av[0], -av[1]]
            if op == 'pow':
                inter += [av[0] ** k for k in range(c + 1)]
            if op == 'lshift':
                inter.append(av[0] << c)
            if not all(-lim <= x < lim for x in inter):
                continue
            rec.count('exhaustive_cases')
            with rec.guard(f'secint{l} {op}{av} const {c}', case, {'mechanism': 'exception', 'op': op, 'divisor_negative': False}):
                got = run1(op, list(av), c)
                if got != e:
                    rec.violation(f'm=1 secint{l}: {op}{av}{" const " + str(c) if c is not None else ""} = {got}, Python gives {e}',
                                  {'mechanism': 'wrong-output', 'op': op, 'divisor_negative': False}, {'case': case}, case=case)
            rec.case(case, nontrivial=op not in ('add', 'sub', 'neg', 'addc', 'rsubc'))
        # reductions over lists that are long relative to the bit length (the operands are ordinary l-bit values; whatever the reduction computes
        # internally must not wrap): all/any over 0/1 lists with every interesting number of zeros/ones, sum/prod/min/max with results that fit
        if l <= 6:
            P = 1 << l
            lens = sorted({1, 2, 3, 2 * l, 2 * l + 1, P - 1, P, P + 1, 2 * P, 2 * P + 1})
            for n in lens:
                for z in sorted({0, 1, 2, P - 1, P, P + 1, 2 * P, n - 1, n}):
                    if not 0 <= z <= n:
                        continue
                    bits = [0] * z + [1] * (n - z)
                    rng.shuffle(bits)
                    for op, arg, e in (('all', bits, int(z == 0)), ('any', bits, int(n - z > 0)), ('any', [1 - b for b in bits], int(z > 0)), ('all', [1 - b for b in bits], int(z == n))):
                        case = [l, 'long-' + op, n, z, arg[:3]]
                        if not rec.wants(case):
                            continue
                        rec.count('exhaustive_cases')
                        rec.count('long_list_reductions')
                        with rec.guard(f'secint{l} {op} of {n} bits', case, {'mechanism': 'exception', 'op': op, 'divisor_negative': False}):
                            got = int(mpc.run(mpc.output({'all': mpc.all, 'any': mpc.any}[op]([secint(b) for b in arg]))))
                            if got != e:
                                rec.violation(f'm=1 secint{l}: {op}() of a list of {n} bits with {arg.count(0)} zeros = {got}, Python gives {e}',
                                              {'mechanism': 'wrong-output', 'op': op, 'divisor_negative': False}, {'case': case}, case=case)
                        rec.case(case, nontrivial=n >= 3)
                signs = [rng.choice([1, -1]) for _ in range(n)]
                small = [rng.choice([0, 1, -1]) for _ in range(n)]
                tot = sum(small)
                for op, arg, e in (('prod', signs, math.prod(signs)), ('sum', small, tot), ('minl', small, min(small)), ('maxl', small, max(small))):
                    if not -lim <= e < lim or (op in ('minl', 'maxl') and l < 2):
                        continue
                    case = [l, 'long-' + op, n, arg[:4]]
                    if not rec.wants(case):
                        continue
                    rec.count('exhaustive_cases')
                    rec.count('long_list_reductions')
                    with rec.guard(f'secint{l} {op} of {n} values', case, {'mechanism': 'exception', 'op': op, 'divisor_negative': False}):
                        fn = {'prod': mpc.prod, 'sum': mpc.sum, 'minl': mpc.min, 'maxl': mpc.max}[op]
                        got = int(mpc.run(mpc.output(fn([secint(b) for b in arg]))))
                        if got != e:
                            rec.violation(f'm=1 secint{l}: {op} of a list of {n} values in {{-1,0,1}} = {got}, Python gives {e}',
                                          {'mechanism': 'wrong-output', 'op': op, 'divisor_negative': False}, {'case': case}, case=case)
                    rec.case(case, nontrivial=n >= 3)
        return
    m, t, no_prss = shard['cfg']
    # several list operations pending together on operands input by different parties (each party has its own operand first), results awaited in
    # another order: the values are those of the operands, whatever the order in which the operations become ready at each party
    for ci in range(6 if m > 1 else 2):
        cvals = [rng.randint(-20, 20) for _ in range(6)]
        order = rng.sample(range(7), 7)
        policy = rng.choice(sim.POLICIES)
        sseed = rng.randrange(1 << 30)
        case = [shard['name'], 'concurrent', ci, policy, sseed]
        if not rec.wants(case):
            continue

        async def conc(mpc, pid, cvals=cvals, order=order):
            secint = mpc.SecInt(32)
            mm = len(mpc.parties)
            xs = [mpc.input(secint(cvals[i] if pid == i % mm else 0), senders=i % mm) for i in range(6)]
            pend = [mpc.in_prod([xs[0], xs[1]], [xs[2], xs[3]]), mpc.in_prod([xs[3], xs[4]], [xs[5], xs[0]]), mpc.matrix_prod([[xs[1], xs[2]]], [[xs[4]], [xs[5]]])[0][0],
                    mpc.prod([xs[0], xs[2], xs[4]]), xs[1] * xs[5], mpc.in_prod([xs[5], xs[2]], [xs[1], xs[4]]), mpc.sum([xs[0] * xs[1], xs[2] * xs[3]])]
            got = [None] * 7
            for j in order:
                got[j] = int(await mpc.output(pend[j]))
            return got
        v = cvals
        exp_c = [v[0] * v[2] + v[1] * v[3], v[3] * v[5] + v[4] * v[0], v[1] * v[4] + v[2] * v[5], v[0] * v[2] * v[4], v[1] * v[5], v[5] * v[1] + v[2] * v[4], v[0] * v[1] + v[2] * v[3]]
        w = sim.World(m, t, no_prss, seed=sseed, policy=policy, history='auto').run(conc)
        rec.count('programs_run')
        rec.count('concurrent_list_operation_programs')
        res = w.ok_results()
        wit = {'values': cvals, 'await_order': order, 'policy': policy, 'sched_seed': sseed}
        if res is None:
            rec.violation(f'{shard["name"]} seven list operations pending together: run did not complete: {w.status} {[r for r in w.results() if r[0] == "EXC"][:1]} {w.error_summaries()[:1]}',
                          {'mechanism': 'no-completion', 'divisor_negative': False, 'deferred_bump': bool(w.deferred_bumps), 'timing_skew': False,
                           'label_disagreement': any('multisets differ' in p_ for p_ in w.wire_check())}, wit, case=case)
        else:
            rec.count('outputs_compared', 7 * len(res))
            for pid, r in enumerate(res):
                if r != exp_c:
                    rec.violation(f'{shard["name"]} seven list operations pending together (awaited in order {order}): party {pid} obtained {r}, Python gives {exp_c}',
                                  {'mechanism': 'wrong-output', 'op': 'concurrent-list-ops', 'divisor_negative': False}, wit, case=case)
                    break
        rec.case(case, nontrivial=m > 1)
    for pi in range(shard['programs']):
        l = rng.choice([4, 8, 16, 32, 32, 64, 61])        # above 60 bits equality tests take another route (probabilistic zero test)
        full = pi % 2 == 0 and l <= 32
        ops = progs.ALL if (full and l <= 16) else ([o for o in progs.ALL if not o.startswith(('gcd', 'lcm', 'inverse'))] if full else progs.CHEAP)
        spec = progs.gen(rng, m, l=l, ops=ops, n_steps=(3, 7) if m > 3 else (3, 10))
        spec['sleepy'] = None
        policy = rng.choice(sim.POLICIES)
        sseed = rng.randrange(1 << 30)
        case = [shard['name'], pi, policy, sseed]
        if not rec.wants(case):
            continue
        expected = progs.expected_outputs(spec)
        w = sim.World(m, t, no_prss, seed=sseed, policy=policy, history='auto').run(progs.build(spec))
        rec.count('programs_run')
        res = w.ok_results()
        what = f'{shard["name"]} secint{l} program {pi} {[s[0] for s in spec["steps"]]}'
        wit = {'spec': spec, 'policy': policy, 'sched_seed': sseed}
        opsset = sorted({s[0] for s in spec['steps']})
        if res is None:
            rec.violation(f'{what}: run did not complete: {w.status} {[r for r in w.results() if r[0] == "EXC"][:1]} {w.error_summaries()[:1]}',
                          {'mechanism': 'no-completion', 'divisor_negative': False, 'deferred_bump': bool(w.deferred_bumps), 'timing_skew': progs.timing_skew(spec) and no_prss,
                           'label_disagreement': any('multisets differ' in p_ for p_ in w.wire_check())}, wit, case=case)
            continue
        for pid, r in enumerate(res):
            rec.count('outputs_compared', sum(len(g) for g in r))
            if r != expected:
                # attribute to the first wrong output node
                bad = [(gi, k) for gi, g in enumerate(expected) for k in range(len(g)) if r[gi][k] != g[k]]
                gi, k = bad[0]
                node = spec['outs'][gi][k]
                op = spec['steps'][node - len(spec['inputs'])][0] if node >= len(spec['inputs']) else 'input'
                rec.violation(f'{what}: party {pid} obtained {r}, Python gives {expected} (first wrong node {node}: {op})',
                              {'mechanism': 'wrong-output', 'op': op, 'divisor_negative': False}, wit, case=case)
                break
        for o in opsset:
            rec.seen('ops', o)
        nmsg = sum(len(w.frames(i, j)[0]) for (i, j) in w.conns)
        rec.case(case, nontrivial=(m == 1 or nmsg > 0) and any(o not in ('add', 'sub', 'neg', 'addc', 'rsubc') for o in opsset),
                 sample={'config': shard['name'], 'l': l, 'steps': [s[0] for s in spec['steps']], 'inputs': spec['inputs'], 'expected': expected, 'messages': nmsg} if pi < 1 else None)
