"""C28 — secure group operations match plain group operations."""
import random

PROPERTY = 'C28'
ENGINE = 'SIM'
LEVEL = 'exploration'
TECHNIQUE = ('runtime oracle monitor: the real secure group types (SecGrp of every family) run under the m-party simulator, one operation per world, operands shared by mpc.input; '
             'every value opened by mpc.output / repeat_public is compared at every party with the plain group result')
RULE = ('case = (group, configuration, operation, operand exponents r with a = g^r, exponent value/type); non-trivial = operands other than the identity and exponent not in {0,1}; '
        'distinct by that tuple; a run that does not complete or raises is a violation attributed to the single operation of that world')
EXHAUSTIVE = ''
ASSUMPTIONS = ['plain group results are the specification (the plain groups are monitored by C27)',
               'secret exponents use the types upstream uses: SecFld(q) for elements of known prime order q, the group\'s own SecInt type for class groups',
               'hyperelliptic divisors other than kummer1271 need NumPy (secure polynomials) and are covered only when NumPy is installed by bin/setup']
REQUIRE = {'any': {'worlds': 400, 'outputs_compared': 1200, 'worlds_sym': 40, 'worlds_qr': 40, 'worlds_schnorr': 40, 'worlds_ec': 60, 'worlds_hc': 15, 'worlds_cl': 30, 'multi_party_worlds': 250, 'public_base_secret_exponent': 40}}
LEVEL_TEXT = 'exploration: 13 group instances x 5 configurations (13 thorough) x ~30 operations, random elements and exponents'
LEVEL_NOTE = 'trusted: plain mpyc.fingroups results (C27), Python ints'
TIMEOUT = {'quick': 1500, 'thorough': 14000}

from vlib.runner import config_name

#          name        family  constructor args                         cost class
GROUPS = [('sym3', 'sym', 3, 'cheap'), ('sym4', 'sym', 4, 'cheap'), ('sym5', 'sym', 5, 'cheap'), ('sym7', 'sym', 7, 'mid'),
          ('qr16', 'qr', {'l': 16}, 'cheap'), ('qr64', 'qr', {'l': 64}, 'cheap'),
          ('sch', 'schnorr', {'l': 32, 'n': 16}, 'cheap'), ('sch11', 'schnorr', {'p': 23, 'q': 11}, 'cheap'),
          ('ed25519-ext', 'ec', ('Ed25519', 'extended'), 'big'), ('ed25519-aff', 'ec', ('Ed25519', 'affine'), 'big'), ('ed448-proj', 'ec', ('Ed448', 'projective'), 'big'),
          ('secp256k1-proj', 'ec', ('secp256k1', 'projective'), 'big'), ('bn256-proj', 'ec', ('BN256', 'projective'), 'big'),
          ('kummer1271', 'hc', {'curvename': 'kummer1271'}, 'big'),
          ('cl23', 'cl', {'Delta': -23}, 'slow'), ('cl227', 'cl', {'Delta': -227}, 'slow'), ('cl-l12', 'cl', {'l': 12}, 'slow')]
QUICK_CFGS = [(1, 0, False), (2, 0, False), (3, 1, False), (3, 1, True), (5, 2, False)]
THOROUGH_CFGS = QUICK_CFGS + [(3, 0, False), (4, 1, False), (4, 1, True), (5, 1, False), (5, 2, True), (6, 2, False), (7, 3, False), (7, 1, True)]


def shards(tier, seed):
    out = []
    cfgs = QUICK_CFGS if tier == 'quick' else THOROUGH_CFGS
    for name, fam, args, cost in GROUPS:
        for c in cfgs:
            if cost == 'slow' and tier == 'quick' and c[0] > 3:
                continue
            if cost == 'slow' and c[0] > 5:
                continue
            out.append({'name': f'{name}-{config_name(c)}', 'group': name, 'cfg': list(c), 'reps': 1 if tier == 'quick' else 3, 'tier': tier})
    return out


def make_group(name):
    from mpyc import fingroups as fg
    _, fam, args, cost = next(g for g in GROUPS if g[0] == name)
    if fam == 'sym':
        return fam, cost, fg.SymmetricGroup(args)
    if fam == 'qr':
        return fam, cost, fg.QuadraticResidues(**args)
    if fam == 'schnorr':
        return fam, cost, fg.SchnorrGroup(**args)
    if fam == 'ec':
        return fam, cost, fg.EllipticCurve(*args)
    if fam == 'hc':
        return fam, cost, fg.HyperellipticCurve(**args)
    return fam, cost, fg.ClassGroup(**args)


def run(shard, rec):
    from vlib import env
    env.prepare()
    from vlib import sim
    from vlib.oracles import ref
    ns = sim.install()
    m, t, no_prss = shard['cfg']
    rng = random.Random(f"c28/{shard['seed']}/{shard['name']}")
    fam, cost, G = make_group(shard['group'])
    rec.seen('families', fam)
    gname = shard['group']
    e = G.identity

    # ---- elements and the exponent type
    if fam == 'sym':
        n = G.degree
        q = max(p for p in (2, 3, 5, 7) if p <= n)                      # an element of prime order q: a q-cycle
        cyc = list(range(n))
        pts = rng.sample(range(n), q)
        for i in range(q):
            cyc[pts[i]] = pts[(i + 1) % q]
        base = G(cyc)
        rand_elt = lambda: G(rng.sample(range(n), n))
        exp_kind, exp_mod = 'SecFld', q
    else:
        g = G.generator
        order = G.order
        if fam == 'cl':
            exp_kind, exp_mod = 'SecInt', None
            rand_elt = lambda: g ^ rng.randrange(0, 50)
        else:
            exp_kind, exp_mod = 'SecFld', order
            rand_elt = lambda: g ^ rng.randrange(1, order)
        base = rand_elt()
        if base == e:
            base = g

    def exponents():
        if exp_kind == 'SecFld':
            return [rng.randrange(2, exp_mod) if exp_mod > 2 else 1, exp_mod - 1, 0, 1]
        return [rng.randrange(2, 40), -rng.randrange(1, 9), 0, 1]

    STEPS = [0]
    feats0 = {'family': fam, 'group': gname, 'm_gt_1': m > 1, 't_gt_0': t > 0, 'exp_type': exp_kind}

    def world_run(opname, build, expect, case, nontrivial, extra=None, sample=None, heavy=False):
        """build(mpc, S, X, pid) -> awaitable giving a list of opened values; expect: list of plain values."""
        if not rec.wants(case):
            return
        feats = dict(feats0, op=opname, **(extra or {}))
        feats['special_case'] = bool(feats.get('degenerate_operands') or feats.get('result_is_identity'))

        async def program(mpc, pid):
            S = mpc.SecGrp(G)
            X = (mpc.SecFld(modulus=exp_mod) if exp_kind == 'SecFld' else S.sectype)
            return await build(mpc, S, X, pid)
        pols = [p for p in sim.POLICIES if not (cost in ('big', 'slow') and p == 'dribble')]
        wseed = rng.randrange(1 << 30)
        w = sim.World(m, t, no_prss, seed=wseed, policy=rng.choice(pols)).run(program, max_steps=60_000_000 if heavy else 1_000_000)
        if w.status == 'STEP-LIMIT':
            # budgets: single operations on the largest groups were measured at < 2e5 steps under every policy but dribble (excluded for them), so 1e6 then 2.5e6
            # steps on the plain uniform scheduler decides divergence with a > 10x margin; the bit-wise secret-exponent ladder gets 6e7
            rec.count('step_limit_retries')
            w = sim.World(m, t, no_prss, seed=wseed, policy='uniform').run(program, max_steps=60_000_000 if heavy else 2_500_000)
        STEPS[0] = max(STEPS[0], w.steps)
        rec.count('worlds')
        rec.count(f'worlds_{fam}')
        if m > 1:
            rec.count('multi_party_worlds')
        res = w.ok_results()
        if res is None:
            errs = w.error_summaries()[:1]
            exc = (errs[0].split(':')[0].strip().split()[-1] if errs else str(w.status))
            rec.violation(f'{gname} {config_name(shard["cfg"])} {opname}: run did not complete ({w.status}) {errs}', dict(feats, mechanism='no-completion', symptom=exc, exc=exc), {'case': case}, case=case)
        else:
            for pid, r in enumerate(res):
                rec.count('outputs_compared', len(r))
                bad = [(i, r[i], expect[i]) for i in range(len(expect)) if not same(r[i], expect[i])]
                if len(r) != len(expect) or bad:
                    rec.violation(f'{gname} {config_name(shard["cfg"])} {opname}: party {pid} obtained {[str(x)[:60] for x in r]}, plain result {[str(x)[:60] for x in expect]}',
                                  dict(feats, mechanism='wrong-result', symptom='wrong-result'), {'case': case, 'bad': [[i, str(a)[:200], str(b)[:200]] for i, a, b in bad]}, case=case)
                    break
        rec.case(case, nontrivial=nontrivial, sample=sample)

    def same(got, exp):
        if isinstance(exp, bool):
            return int(got) == int(exp)
        if got is None or exp is None:
            return got is exp
        return got == exp

    def degenerate(*elts):
        """some pair of operands equal or inverse, or an identity among operands/result (the cases addition formulas treat specially)"""
        elts = list(elts)
        return any(x == e for x in elts) or any(elts[i] == elts[j] or elts[i] == ~elts[j] for i in range(len(elts)) for j in range(i))

    def sh(mpc, S, v, pid):
        """secret-share plain group element v from party 0 (other parties supply a dummy)"""
        return mpc.input(S(v if pid == 0 else e), senders=0)

    def shx(mpc, X, x, pid):
        return mpc.input(X(x if pid == 0 else 0), senders=0)

    for rep in range(shard['reps']):
        a, b = rand_elt(), rand_elt()
        if rep == 0 and fam != 'sym':
            b = ~a if rng.random() < .3 else b
        nt = not (a == e) and not (b == e)
        key = [gname, config_name(shard['cfg']), rep]

        # ---------- input / output / conversion
        async def io(mpc, S, X, pid):
            x = sh(mpc, S, a, pid)
            y = S(b)                                     # conversion of a plain element
            z = S(b.value) if fam != 'sym' or True else None
            return [await mpc.output(x), await mpc.output(y), await mpc.output(z), (await mpc.output([x, y]))[1], await mpc.output(S.identity)]
        world_run('io', io, [a, b, b, b, e], key + ['io'], nt, sample={'group': gname, 'config': shard['cfg'], 'a': str(a)[:80]} if rep == 0 else None)

        async def io_recv(mpc, S, X, pid):
            x = sh(mpc, S, a, pid)
            r = await mpc.output(x, receivers=[m - 1])
            return [r if pid == m - 1 else a, None if pid == m - 1 else r]
        world_run('io-receivers', io_recv, [a, None], key + ['io-recv'], nt)

        # ---------- group operation, inversion
        async def op(mpc, S, X, pid):
            x, y = sh(mpc, S, a, pid), sh(mpc, S, b, pid)
            return [await mpc.output(x @ y), await mpc.output(x @ b), await mpc.output(a @ y), await mpc.output(~x), await mpc.output(x.inverse()), await mpc.output(S.operation2(y)), await mpc.output(~(x @ y) @ x)]
        world_run('operation', op, [a @ b, a @ b, a @ b, ~a, ~a, b @ b, ~b], key + ['op'], nt, extra={'degenerate_operands': degenerate(a, b)})

        async def opd(mpc, S, X, pid):
            x, y = sh(mpc, S, a, pid), sh(mpc, S, b, pid)
            z = sh(mpc, S, e, pid)                      # a shared identity element
            return [await mpc.output(x @ x), await mpc.output(x @ ~x), await mpc.output(x @ S.identity), await mpc.output(S.identity @ y), await mpc.output(x @ a), await mpc.output(~b @ y),
                    await mpc.output(z), await mpc.output(z @ x), await mpc.output(~z)]
        world_run('operation-special-operands', opd, [a @ a, e, a, b, a @ a, e, e, a, e], key + ['op-special'], nt, extra={'degenerate_operands': True})

        async def eqd(mpc, S, X, pid):
            x, y = sh(mpc, S, a, pid), sh(mpc, S, b, pid)
            z = sh(mpc, S, e, pid)
            return [await mpc.output(z == S.identity), await mpc.output(x == z), await mpc.output(z != y), await mpc.output(z == e), await mpc.output(x == e), await mpc.output(z == z)]
        async def eqc(mpc, S, X, pid):
            x, y = sh(mpc, S, a, pid), sh(mpc, S, b, pid)
            i1, i2 = x @ ~x, ~y @ y                       # the identity reached by computation (its representation need not be the canonical one)
            return [await mpc.output(i1 == S.identity), await mpc.output(i1 == i2), await mpc.output(i1 != i2), await mpc.output(i2 == e), await mpc.output(i1 == x), await mpc.output((i1 @ y) == y)]
        world_run('equality-of-computed-identity', eqc, [True, True, False, True, a == e, True], key + ['eq-computed-identity'], nt, extra={'degenerate_operands': True, 'identity_operand': True})

        world_run('equality-with-identity', eqd, [True, a == e, b != e, True, a == e, True], key + ['eq-identity'], nt, extra={'degenerate_operands': False, 'identity_operand': True})

        if G.is_additive or G.is_multiplicative:
            async def alias(mpc, S, X, pid):
                x, y = sh(mpc, S, a, pid), sh(mpc, S, b, pid)
                if G.is_additive:
                    return [await mpc.output(x + y), await mpc.output(x - y), await mpc.output(-x), await mpc.output(a + y), await mpc.output(x - b), await mpc.output(a - y), await mpc.output(3 * x), await mpc.output(-2 * x)]
                return [await mpc.output(x * y), await mpc.output(x / y), await mpc.output(1 / x), await mpc.output(a * y), await mpc.output(x / b), await mpc.output(a / y), await mpc.output(x ** 3), await mpc.output(x ** -2)]
            world_run('aliases', alias, [a @ b, a @ ~b, ~a, a @ b, a @ ~b, a @ ~b, a ^ 3, a ^ -2], key + ['alias'], nt, extra={'degenerate_operands': degenerate(a, b)})

        # ---------- equality
        async def eq(mpc, S, X, pid):
            x, y, x2 = sh(mpc, S, a, pid), sh(mpc, S, b, pid), sh(mpc, S, a, pid)
            return [await mpc.output(x == x2), await mpc.output(x == y), await mpc.output(x != y), await mpc.output(x == a), await mpc.output(x != a), await mpc.output(b == x), await mpc.output((x @ y) == (a @ b))]
        world_run('equality', eq, [True, a == b, a != b, True, False, a == b, True], key + ['eq'], nt, extra={'degenerate_operands': degenerate(a, b)})

        # ---------- if_else
        for cbit in (0, 1):
            async def ie(mpc, S, X, pid, cbit=cbit):
                x, y = sh(mpc, S, a, pid), sh(mpc, S, b, pid)
                c = mpc.input(S.sectype(cbit if pid == 0 else 0), senders=0)
                return [await mpc.output(S.if_else(c, x, y)), await mpc.output(S.if_else(c, a, y)), await mpc.output(S.if_else(c, x, b)), await mpc.output(S.if_else(c, a, b)),
                        await mpc.output(S.if_else(1 - c, x, y))]
            world_run(f'if_else', ie, [a if cbit else b] * 4 + [b if cbit else a], key + ['if_else', cbit], nt and not (a == b), extra={'c': cbit})

        # ---------- repeat with public exponent (secret base)
        pub_exps = [0, 1, 2, -1, rng.randrange(3, 200), -rng.randrange(2, 50)]
        if fam == 'cl' and (m > 1 or rep > 0):
            pub_exps = [0, -1, rng.randrange(2, 12)]

        async def rp(mpc, S, X, pid):
            x = sh(mpc, S, a, pid)
            return [await mpc.output(x ^ n) for n in pub_exps] + [await mpc.output(S.repeat(x, pub_exps[-1]))]
        world_run('repeat-public-exponent', rp, [a ^ n for n in pub_exps] + [a ^ pub_exps[-1]], key + ['rep-pubexp', pub_exps], nt)

        # ---------- elements outside the generator's prime-order subgroup (curves with a cofactor), exponents around the subgroup order
        if fam == 'ec' and gname.startswith('ed') and m == 1 and rep == 0:
            Fq = G.field
            low = {2: (Fq(0), Fq(-1)), 3: (Fq(0), Fq(-1), Fq(1)), 4: (Fq(0), Fq(-1), Fq(1), Fq(0))}[len(G.identity.value)]
            t2 = G(low)
            outside = G.generator @ t2
            big_exps = [order - 1, order + 1, -(order + 2)]

            async def rpo(mpc, S, X, pid):
                x = sh(mpc, S, outside, pid)
                return [await mpc.output(x ^ n) for n in big_exps]
            world_run('repeat-public-exponent-outside-subgroup', rpo, [outside ^ n for n in big_exps], key + ['rep-pubexp-outside'], True, extra={'outside_subgroup': True}, heavy=True)
        # ---------- secret exponents
        xs = exponents()
        for xi, x in enumerate(xs):
            px = x                                   # plain exponent
            basep = base if fam == 'sym' else a
            if basep == e:
                basep = base
            ntx = x not in (0, 1) and not (basep == e)
            exf = {'exp_negative': x < 0, 'exp_value_class': 'zero' if x == 0 else 'one' if x == 1 else 'neg' if x < 0 else 'general', 'result_is_identity': bool((basep ^ px) == e)}

            base2 = (base ^ 2) if fam == 'sym' else (b if not (b == e) else basep)

            async def pb(mpc, S, X, pid, x=x, basep=basep, base2=base2):
                sx = shx(mpc, X, x, pid)
                r1 = S.repeat(basep, sx)
                r2 = S.repeat(base2, sx)                 # the exponent object is used again (as in (g^x, h^x)) and is still what it was
                xo = await mpc.output(sx)
                return [await mpc.output(r1), await mpc.output(r2), int(xo)]
            px_int = (px % exp_mod) if exp_kind == 'SecFld' else px
            world_run('repeat-public-base-secret-exponent', pb, [basep ^ px, base2 ^ px, px_int], key + ['rep-pubbase', xi, x], ntx, extra=dict(exf, base='public'))
            rec.count('public_base_secret_exponent')

            async def pp(mpc, S, X, pid, x=x, basep=basep):
                sx = shx(mpc, X, x, pid)
                return [await S.repeat_public(basep, sx)]
            world_run('repeat_public', pp, [basep ^ px], key + ['rep-public', xi, x], ntx, extra=dict(exf, base='public', output='public'))

            if xi == 0:
                b2 = (base ^ 2) if fam == 'sym' else b
                x2 = xs[1]

                async def ppl(mpc, S, X, pid, x=x, basep=basep):
                    sx, sy = shx(mpc, X, x, pid), shx(mpc, X, x2, pid)
                    return [await S.repeat_public([basep, b2], [sx, sy])]
                world_run('repeat_public-list', ppl, [(basep ^ px) @ (b2 ^ x2)], key + ['rep-public-list', x, x2], ntx, extra=dict(exf, base='public', output='public', form='list', exp2_negative=x2 < 0))

            # secret base, secret exponent: |exponent type| secure group operations; budgeted for the big groups
            heavy = cost in ('big', 'slow')
            if heavy and not (xi == 0 and rep == 0 and ((m, t, no_prss) in ((1, 0, False), (3, 1, False)) and (shard['tier'] == 'thorough' or (gname, m) in (('ed25519-ext', 3), ('cl23', 3), ('secp256k1-proj', 1), ('kummer1271', 1))))):
                continue
            if cost == 'mid' and xi > 1:
                continue

            async def sb(mpc, S, X, pid, x=x, basep=basep):
                sx = shx(mpc, X, x, pid)
                y = sh(mpc, S, basep, pid)
                return [await mpc.output(S.repeat(y, sx))]
            world_run('repeat-secret-base-secret-exponent', sb, [basep ^ px], key + ['rep-secbase', xi, x], ntx, extra=dict(exf, base='secret', degenerate_operands=(x % 2 == 0)), heavy=True)   # an even exponent makes the ladder's accumulator the identity
            rec.count('secret_base_secret_exponent')

        if G.is_additive or G.is_multiplicative:
            x = xs[0]
            basep = base if fam == 'sym' else a

            async def opalias(mpc, S, X, pid):
                sx = shx(mpc, X, x, pid)
                y = sh(mpc, S, basep, pid)
                if G.is_additive:
                    return [await mpc.output(sx * basep), await mpc.output(basep * sx) if False else basep ^ x]
                return [await mpc.output(basep ** sx), basep ^ x]
            world_run('operator-secret-exponent', opalias, [basep ^ x, basep ^ x], key + ['op-secexp', x], True, extra={'base': 'public', 'exp_negative': x < 0})
    rec.note_side(f'max scheduler steps of a world in {shard["name"]}: {STEPS[0]}')
